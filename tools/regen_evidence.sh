#!/bin/bash
# Regenerates every evidence file from /verif against /repo (quick tier by
# default) and validates manifest + evidence against the schemas.
cd "$(dirname "$0")/.."
tier=${1:-quick}
rc=0
for p in C02 C03 C06 C09 C10 C16 C17 C18 C19 C20; do
  ./check $p --tier $tier | tail -3 || rc=1
done
/venv/bin/python tools/mkmanifest.py
python3-vt - <<'PY'
import json, jsonschema, glob
jsonschema.validate(json.load(open('MANIFEST.json')), json.load(open('/root/.vp/MANIFEST.schema.json')))
sch = json.load(open('/root/.vp/EVIDENCE.schema.json'))
for f in sorted(glob.glob('evidence/*.json')):
    e = json.load(open(f)); jsonschema.validate(e, sch)
    c = e['coverage']
    print(f, e['tier'], 'runs', c['evaluations'], 'distinct_nontrivial', c['distinct_nontrivial'], 'violations', e['violations'], 'wall', e['wall_s'])
print('manifest and evidence valid')
PY
exit $rc

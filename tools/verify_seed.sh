#!/bin/bash
# tools/verify_seed.sh <PROP> <seed dir> [extra check args]
# Verifies an independently written breaking change: patch applies, demo
# passes without / fails with it, pinned tests unchanged; then runs the check
# of that property against the patched copy.
P=$1; D=$2; shift 2
W=/var/tmp/seedchk-$$
rm -rf $W; mkdir -p $W
rsync -a --exclude .git --exclude __pycache__ --exclude .benchmarks /repo/ $W/clean/
cp -r $W/clean $W/patched
if ! patch -s -p1 -d $W/patched < $D/patch.diff; then echo "PATCH-DOES-NOT-APPLY"; rm -rf $W; exit 3; fi
( cd $W && timeout 600 /venv/bin/python $D/demo.py $W/clean >/dev/null 2>&1; echo "demo_without=$?" )
( cd $W && timeout 600 /venv/bin/python $D/demo.py $W/patched >/dev/null 2>&1; echo "demo_with=$?" )
( cd $W/patched && timeout 900 /venv/bin/python -m pytest -q -p no:cacheprovider --timeout=900 --continue-on-collection-errors 2>&1 | tail -1 )
VERIF_REPO=$W/patched VERIF_EVIDENCE_DIR=$W/out/evidence VERIF_REPLAY_DIR=$W/out/replays timeout 3000 /verif/check $P --tier quick "$@" 2>&1 | grep -E "VIOLATION|OK property|HARNESS|KNOWN|runs in|class=" | cut -c1-300 | head -8
echo "check_exit=${PIPESTATUS[0]}"
rm -rf $W

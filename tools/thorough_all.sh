#!/bin/bash
# Runs every check's thorough tier once (default seed unless given); one summary
# line per check; output of any run that does not exit 0 is kept in soak-out/.
# usage: tools/thorough_all.sh [seed] [props...]
cd "$(dirname "$0")/.."
seed=${1:-20261003}; shift
props=${@:-C02 C10 C06 C19 C18 C16 C17 C09 C20 C03}
mkdir -p soak-out
for p in $props; do
  out=$(timeout 5400 ./check $p --tier thorough --seed $seed ${BUDGET:+--budget-s $BUDGET} 2>&1); rc=$?
  echo "thorough seed=$seed $p exit=$rc $(echo "$out" | grep -E 'runs in' | head -1)"
  if [ $rc -ne 0 ]; then echo "$out" > soak-out/$p-thorough-$seed.log; echo "$out" | grep -E 'VIOLATION|HARNESS|KNOWN' | head -5; fi
done

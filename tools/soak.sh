#!/bin/bash
# Soak: runs every check's quick tier under many seeds; prints one line per
# (check, seed) and keeps the output of any run that does not exit 0.
# usage: tools/soak.sh <first seed> <n seeds> [props...]
cd "$(dirname "$0")/.."
first=${1:-1}; n=${2:-5}; shift 2
props=${@:-C02 C10 C06 C19 C18 C16 C17 C09 C20 C03}
mkdir -p soak-out
for ((s=first; s<first+n; s++)); do
  for p in $props; do
    out=$(timeout 1500 ./check $p --tier quick --seed $s 2>&1); rc=$?
    echo "seed=$s $p exit=$rc $(echo "$out" | grep -E 'runs in' | head -1)"
    if [ $rc -ne 0 ]; then echo "$out" > soak-out/$p-$s.log; echo "$out" | grep -E 'VIOLATION|HARNESS|KNOWN' | head -5; fi
  done
done

#!/venv/bin/python
"""Applies a textual mutation (or a patch file) to a scratch copy of the repo
and runs one check against it.

  tools/try_mutant.py C17 --edit src/single_layer.py 'imap(' 'imap_unordered(' [--runs N]
  tools/try_mutant.py C17 --patch seeded/x/patch.diff
Exit status = the check's exit status (1 = detected)."""
import argparse
import os
import shutil
import subprocess
import sys

HERE = os.path.dirname(os.path.dirname(os.path.abspath(__file__)))


def main():
    ap = argparse.ArgumentParser()
    ap.add_argument('prop')
    ap.add_argument('--edit', nargs=3, action='append', default=[])
    ap.add_argument('--patch', default=None)
    ap.add_argument('--runs', default=None)
    ap.add_argument('--tier', default='quick')
    ap.add_argument('--seed', default=None)
    ap.add_argument('--keep', action='store_true')
    a = ap.parse_args()
    src = os.environ.get('VERIF_REPO', '/repo')
    dst = '/var/tmp/stbem-mut-{}'.format(os.getpid())
    shutil.rmtree(dst, ignore_errors=True)
    shutil.copytree(src, dst, ignore=shutil.ignore_patterns(
        '.git', '__pycache__', '.benchmarks', 'data', 'data_exact'))
    try:
        for fn, old, new in a.edit:
            p = os.path.join(dst, fn)
            s = open(p).read()
            if old not in s:
                print('MUTATION-NOT-APPLICABLE: {!r} not in {}'.format(old, fn))
                return 3
            open(p, 'w').write(s.replace(old, new, 1))
        if a.patch:
            r = subprocess.run(['patch', '-p1', '-d', dst, '-i',
                                os.path.abspath(a.patch)],
                               stdout=subprocess.PIPE, stderr=subprocess.STDOUT)
            if r.returncode:
                print(r.stdout.decode())
                return 3
        env = dict(os.environ, VERIF_REPO=dst,
                   VERIF_EVIDENCE_DIR=dst + '-out/evidence',
                   VERIF_REPLAY_DIR=dst + '-out/replays')
        cmd = [os.path.join(HERE, 'check'), a.prop, '--tier', a.tier]
        if a.runs:
            cmd += ['--runs', a.runs]
        if a.seed:
            cmd += ['--seed', a.seed]
        r = subprocess.run(cmd, env=env, stdout=subprocess.PIPE,
                           stderr=subprocess.STDOUT, cwd=HERE)
        out = r.stdout.decode()
        print('\n'.join(out.strip().split('\n')[-8:]))
        return r.returncode
    finally:
        if not a.keep:
            shutil.rmtree(dst, ignore_errors=True)
            shutil.rmtree(dst + '-out', ignore_errors=True)


sys.exit(main())

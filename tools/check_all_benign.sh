#!/bin/bash
# Runs every kept behaviour-preserving refactor (benign/<group>/refactor_k.diff)
# through the quick tier of the checks it can affect; all must stay silent.
cd "$(dirname "$0")/.."
declare -A P=( [pool]="C17 C09 C20 C03" [cache]="C17 C03" [estim]="C09 C20 C03" [quad]="C16 C17" [mesh]="C02 C10 C06 C19 C18 C20" [driver]="C03 C17" )
rc=0
for g in ${@:-pool cache estim quad mesh driver}; do
  for f in benign/$g/refactor_*.diff; do echo "== $f"; tools/check_benign.sh $f ${P[$g]} || rc=1; done
done
exit $rc

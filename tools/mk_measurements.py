#!/usr/bin/env python3
"""Prints the DESIGN 11.4 table from the evidence files of the last run."""
import glob
import json
import os
HERE = os.path.dirname(os.path.dirname(os.path.abspath(__file__)))
order = ['C02', 'C10', 'C06', 'C19', 'C18', 'C16', 'C17', 'C09', 'C20', 'C03']
print('| check | tier | runs | distinct non-trivial | wall | runs/h | violations |')
print('|---|---|---|---|---|---|---|')
for p in order:
    f = os.path.join(HERE, 'evidence', p + '.json')
    if not os.path.exists(f):
        continue
    e = json.load(open(f))
    c = e['coverage']
    w = e['wall_s']
    print('| {} | {} | {} | {} | {:.0f} s | {:.0f} | {} |'.format(
        p, e['tier'], c['evaluations'], c['distinct_nontrivial'], w,
        c['evaluations'] / max(w, 1e-9) * 3600, len(e['violations'])
        if isinstance(e['violations'], list) else e['violations']))

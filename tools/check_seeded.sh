#!/bin/bash
# Runs the check of the owning property against every kept seeded change
# (scratch copies only, /repo is never touched).  usage: tools/check_seeded.sh [ids...]
cd "$(dirname "$0")/.."
ids=${@:-$(ls seeded)}
fail=0
for id in $ids; do
  P=${id:0:3}
  W=/var/tmp/seedrun-$$-$id
  rm -rf $W; mkdir -p $W
  rsync -a --exclude .git --exclude __pycache__ --exclude .benchmarks /repo/ $W/patched/
  if ! patch -s -p1 -d $W/patched < seeded/$id/patch.diff; then echo "$id PATCH-DOES-NOT-APPLY"; fail=1; rm -rf $W; continue; fi
  out=$(VERIF_REPO=$W/patched VERIF_EVIDENCE_DIR=$W/out/evidence VERIF_REPLAY_DIR=$W/out/replays timeout 3000 ./check $P --tier quick 2>&1); rc=$?
  cls=$(echo "$out" | grep -E "^  class=" | head -1 | cut -c1-120)
  if [ $rc -eq 1 ] && echo "$out" | grep -q "^VIOLATION property=$P "; then echo "$id DETECTED by $P $cls"; else echo "$id MISSED (exit $rc)"; fail=1; fi
  rm -rf $W
done
exit $fail

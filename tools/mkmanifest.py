#!/venv/bin/python
"""Regenerates MANIFEST.json from the check modules that exist."""
import importlib
import json
import os
import sys

HERE = os.path.dirname(os.path.dirname(os.path.abspath(__file__)))
sys.path.insert(0, HERE)

NA = {
    'C01': 'pure function (curve, two rectangles, switch) -> float: no schedule, clock, I/O, fault or operation history can change an entry; deterministic simulation has nothing to decide (DESIGN.md section 4)',
    'C04': 'pure per-entry / per-point predicate; its one path-dependent clause (matrix structure produced by the worker-side causality guard) is enforced by the bitwise oracle of C17',
    'C05': 'a finite table of literals; nothing executes over time, no fault or interleaving exists',
    'C07': 'pure map (element, t, x) -> float; no schedule/fault dimension',
    'C08': 'pure numerics; its only nondeterminism (set iteration order in the domain mesh) cannot move a 1e-5 tolerance and is decided bitwise under C17/C16',
    'C11': 'pure metamorphic relation between entries; no schedule/fault dimension',
    'C12': 'pure metamorphic relation between entries; no schedule/fault dimension',
    'C13': 'pure function of the matrix entries; no schedule/fault dimension',
    'C14': 'pure quadrature exactness statement; no schedule/fault dimension',
    'C15': 'pure quadrature construction statement; no schedule/fault dimension',
}
PENDING = 'claimed in DESIGN.md; check not built yet in this commit'

LEVEL_TEXT = {}


def main():
    props = [json.loads(l) for l in open(os.path.join(HERE, 'properties.jsonl'))]
    checks = []
    na = []
    engines = {}
    for p in props:
        pid = p['id']
        fn = os.path.join(HERE, 'checks', pid.lower() + '.py')
        if not os.path.exists(fn):
            na.append({'property_id': pid, 'reason': NA.get(pid, PENDING)})
            continue
        m = importlib.import_module('checks.' + pid.lower())
        checks.append({
            'property_id': pid,
            'quick_cmd': './check {} --tier quick'.format(pid),
            'thorough_cmd': './check {} --tier thorough'.format(pid),
            'evidence_file': '/verif/evidence/{}.json'.format(pid),
            'replay_cmd_template': './check {} --replay {{path}}'.format(pid),
            'engine': m.ENGINE,
            'level_claimed': {
                'category': m.LEVEL,
                'text': m.LEVEL_TEXT,
                'design_ref': m.DESIGN_REF,
            },
            'level_note': m.LEVEL_NOTE,
            'technique': m.TECHNIQUE,
        })
        engines.setdefault(m.ENGINE, []).append(pid)
    eng_path = {'L0-meshsim': 'sim/meshsim.py', 'L0-quadsim': 'sim/quadsim.py',
                'L1-sessions': 'sim/sessions.py (+ sim/drivertrace.py, sim/simmp.py, sim/simdisk.py)',
                'L1-estimsim': 'sim/estimsim.py (+ sim/refnum.py)', 'L1-hh2sim': 'sim/hh2sim.py',
                'L2-driver': 'sim/orthosim.py + sim/driver.py'}
    man = {
        'version': 1,
        'setup_cmd': './check setup',
        'hooks': {
            'guard': 'RVANVENETIE_STBEM_VERIF',
            'enable': 'no in-repo hook exists: all seams are module-namespace patches applied from /verif at import time (fake multiprocessing module, numpy.load/save, time.time, src.initial_mesh.set); checks import the working tree from $VERIF_REPO (default /repo)',
            'baseline_off_cmd': 'cd /repo && /venv/bin/python -m pytest -ra -q -p no:cacheprovider --timeout=900 --continue-on-collection-errors',
            'source_commits': [],
            'add_only': True,
        },
        'engines': [{'name': k, 'path': eng_path.get(k, 'sim/'),
                     'serves_properties': v,
                     'kind_free_text': 'seeded deterministic simulation, in-process, own PRNG streams, ddmin minimiser, replay files'}
                    for k, v in sorted(engines.items())],
        'checks': checks,
        'not_applicable': na,
        'notes': 'See DESIGN.md. Exit codes: 0 held (KNOWN-FINDING lines possible), 1 VIOLATION, 2 harness trouble. Genuine defects repaired in /repo by fix: commits are listed in known_findings.json as status fixed.',
    }
    with open(os.path.join(HERE, 'MANIFEST.json'), 'w') as f:
        json.dump(man, f, indent=1)
    print('MANIFEST.json: {} checks, {} not applicable'.format(len(checks), len(na)))


main()

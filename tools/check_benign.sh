#!/bin/bash
# tools/check_benign.sh <patch.diff> <PROP> [<PROP> ...]
# A behaviour-preserving change must NOT raise an alarm: applies the patch to
# a scratch copy of /repo and runs the quick tier of the given checks.
cd "$(dirname "$0")/.."
patchf=$(readlink -f "$1"); shift
W=/var/tmp/benign-$$
rm -rf $W; mkdir -p $W
rsync -a --exclude .git --exclude __pycache__ --exclude .benchmarks /repo/ $W/patched/
if ! patch -s -p1 -d $W/patched < "$patchf"; then echo "PATCH-DOES-NOT-APPLY $patchf"; rm -rf $W; exit 3; fi
bad=0
for P in "$@"; do
  out=$(VERIF_REPO=$W/patched VERIF_EVIDENCE_DIR=$W/out/evidence VERIF_REPLAY_DIR=$W/out/replays timeout 3000 ./check $P --tier quick 2>&1); rc=$?
  if [ $rc -eq 0 ]; then echo "  $P silent (exit 0)"; else echo "  $P ALARM (exit $rc)"; echo "$out" | grep -E "VIOLATION|HARNESS|class=" | cut -c1-300 | head -6; bad=1; mkdir -p $W-keep; cp -r $W/out/replays $W-keep/ 2>/dev/null; fi
done
rm -rf $W
exit $bad

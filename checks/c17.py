"""C17 -- assembly paths, worker schedules and the disk cache are
transparent."""
from sim import drivertrace, sessions

PROPERTY = 'C17'
LEVEL = 'fault_enumeration'
ENGINE = 'L1-sessions'
COMPONENTS_REAL = [
    'example.py unmodified as a killable forked process (L2 share of runs)',
    'src/single_layer.py: SingleLayerOperator.bilform_matrix, bilform, '
    'MP_SL_matrix_col (unmodified)',
    'src/initial_potential.py: InitialOperator.linform_vector, linform, '
    'MP_M0_val (unmodified)',
    'src/initial_mesh.py, src/mesh.py, src/hierarchical_error_estimator.py '
    '(DummyElement quarters), src/quadrature*.py',
    'numpy .npy reader/writer (the real numpy.load/save produce and parse '
    'the bytes)',
    'worker processes: real os.fork() children holding a real snapshot of '
    'the parent; callables and results really pickled through pipes'
]
COMPONENTS_STUBBED = [
    'multiprocessing module -> sim/simmp.py (scheduler, chunk->worker '
    'assignment, completion order, cpu_count, fork EAGAIN are seeded '
    'decisions; IPC threads replaced by a baton)',
    'numpy.load / numpy.save -> sim/simdisk.py (durability: torn / lost '
    'writes, failing saves and loads, crash freezing the disk)',
    'time.time -> sim/simclock.py (virtual seconds)',
    'builtin set in src.initial_mesh -> sim/simset.py (seeded order)',
    'process crash -> dead-flag on the session (the repo\'s bare except '
    'would swallow an exception): disk frozen, results discarded, restart '
    'rebuilds all objects from the recorded mesh history'
]
ASSUMPTIONS = [
    'reference = a pristine operator (cache_dir=None) evaluating '
    'bilform(trial_j, test_i) / linform(e)[0] one pair / element at a time, '
    'memoised by geometry; comparison is exact (== on every entry)',
    'one operator configuration per cache directory (the driver\'s own '
    'contract); bit-flips inside the data region of a full-length file are '
    'not injected (no checksum exists, the property lists truncation '
    'classes)',
    'worker death is not injected (CPython\'s own pool hangs on it; no '
    'property promises anything there)'
]
RULE = ('seeded sessions on all five curves sharing 1-2 simulated cache '
        'directories; ops: bilform_matrix / linform_vector with selections '
        '(default, all, sub-list, permutation, virtual quarters, geometric '
        'box) on both sides of N*M=100, rectangular, serial or pool with '
        '1..16 workers and a seeded schedule; faults: torn/lost/failing '
        'save, failing load, fork EAGAIN, crash at a seam event with a torn '
        'class, delete/truncate/garble between ops, restart; non-trivial = '
        'run contains >= 1 assembly op; distinct = distinct explicit op list; '
        'a seeded share of the runs (p_l2) is system level: the unmodified '
        'driver, reference trace at numpy.linalg.solve vs the trace after '
        'crashes with torn SL_/M0_ files, restarts and other worker counts')
TIERS = {
    'quick': {'runs': 2400, 'budget_s': 170, 'max_ops': 9, 'wall_cap': 600,
              'p_l2': 0.012, 'p_big': 0.006},
    'thorough': {'runs': 60000, 'budget_s': 2400, 'max_ops': 12, 'p_l2': 0.03, 'p_big': 0.01,
                 'wall_cap': 900},
}


def generate(seed, cfg):
    from sim.core import stream
    rng = stream(seed, 'layer')
    if rng.random() < cfg.get('p_l2', 0.0):
        return drivertrace.gen(stream(seed, 'workload'), cfg)
    return sessions.gen_run(seed, cfg)


def execute(run, cov, log):
    if run.get('layer') == 'L2':
        drivertrace.execute(run, cov, log)
    else:
        sessions.execute(run, cov, log)


def preload():
    from sim import seams
    seams.preload()


def shrink(run):
    if run.get('layer') == 'L2':
        return drivertrace.shrink(run)
    return sessions.shrink_run(run)


def sample_of(run):
    if run.get('layer') == 'L2':
        return run
    return {'dirs': run['dirs'], 'ops': run['ops'][:8],
            'n_ops': len(run['ops'])}


def evidence_extra(cov):
    return {
        'pool_interleavings_distinct': len(cov.s.get('pool_interleavings', ())),
        'disk_states_at_load_distinct': len(
            cov.s.get('disk_states_at_load', ())),
        'workers_hist': cov.group('workers_hist'),
        'pool': cov.group('pool'),
        'disk': cov.group('disk'),
    }


LEVEL_TEXT = ('Seeded fault and schedule search: every assembly call of a '
              'simulated session is compared entry-for-entry with per-pair '
              'evaluation under injected torn/lost/failing writes, failing '
              'loads, fork failure, crashes at seam events and restarts; '
              'every complete cache file is re-read by the harness.')
DESIGN_REF = 'DESIGN.md section 2 (C17), 1.3-1.5'
LEVEL_NOTE = ('Trusted: bilform/linform themselves (C01/C08 are not claimed) '
              'and numpy\'s .npy format; schedules and fault placements are '
              'sampled, not enumerated.')
TECHNIQUE = ('deterministic simulation with fault injection: real forked '
             'workers under a seeded scheduler, simulated disk durability, '
             'crash/restart, bitwise reference oracle, ddmin replay')

"""C18 -- curves arc-length / closed / piecewise consistent; elements sit on
one piece; >= 3 elements around a closed curve in every slab."""
import numpy as np

from checks import l0common
from sim import meshsim, repo
from sim.core import Violation, stream

PROPERTY = 'C18'
LEVEL = 'exploration'
ENGINE = l0common.ENGINE
COMPONENTS_REAL = l0common.COMPONENTS_REAL
COMPONENTS_STUBBED = l0common.COMPONENTS_STUBBED
ASSUMPTIONS = [
    'the history/configuration clause (piece assignment, three elements per '
    'slab) is what the simulation decides; the curve clause (arc length, '
    'piece lengths, continuity, closure, whole-curve == piece evaluation) has '
    'no history in it and is evaluated directly once per run -- it is not '
    'counted as simulation evidence',
    'initial space grids always contain the break points, start at 0 and end '
    'at the curve length (the constructor\'s stated precondition)'
]
RULE = ('seeded (curve, initial time grid with 1..6 slabs, initial space '
        'grid containing the break points, history) cases on '
        'MeshParametrized; after the constructor and after every op every '
        'leaf must carry the piece containing its parameter interval and '
        'every time must be covered by >= 3 leaves on closed curves; '
        'non-trivial = >= 1 op or a non-default initial grid; distinct = '
        'distinct (config, op list)')

W = {'bisect': 10, 'uniform': 0.3, 'uniform_space': 0.3, 'dorfler_iso': 0.3,
     'dorfler_aniso': 0.5, 'grading': 0.1}
TIERS = {
    'quick': {'runs': 8000, 'budget_s': 150, 'leaf_cap': 250, 'max_ops': 60,
              'weights': W, 'config_kinds': ['param'], 'p_time_grid': 0.7,
              'p_space_grid': 0.5, 'p_short': 0.7},
    'thorough': {'runs': 100000, 'budget_s': 1500, 'leaf_cap': 400,
                 'max_ops': 200, 'weights': W, 'config_kinds': ['param'],
                 'p_time_grid': 0.7, 'p_space_grid': 0.5, 'p_short': 0.6},
}
MODE = {'compare': False, 'post': ['pieces']}
OWN = {'piece': 1, 'three-elements': 1, 'ctor-assert': 1}


def curve_clause(name, cov, order_seed=0):
    """Direct evaluation of the curve clause (no simulation content)."""
    gamma = meshsim.make_curve(name)
    L = gamma.gamma_length
    ps = [float(p) for p in gamma.pw_start]
    bad = None
    if gamma.closed and not np.allclose(gamma.eval(0.0), gamma.eval(L),
                                        atol=1e-12):
        bad = 'not closed'
    for i, g in enumerate(gamma.pw_gamma):
        a, b = ps[i], ps[i + 1]
        xs = a + (b - a) * np.linspace(0.0, 1.0, 33)
        pts = g(xs)
        h = 1e-6
        mid = xs[1:-1]
        d = (g(mid + h) - g(mid - h)) / (2 * h)
        if not np.allclose(np.linalg.norm(d, axis=0), 1.0, atol=1e-6):
            bad = 'piece {} not arc-length'.format(i)
        if name != 'Circle':
            if abs(np.linalg.norm(g(b) - g(a)) - (b - a)) > 1e-12 * max(1, b):
                bad = 'piece {} length != side length'.format(i)
        elif abs(L - 2 * np.pi) > 1e-14:
            bad = 'circle length'
        whole = gamma.eval(xs)
        if not np.allclose(whole, pts, atol=1e-12, rtol=0):
            bad = 'eval != piece {}'.format(i)
        if i + 1 < len(gamma.pw_gamma):
            if not np.allclose(g(b), gamma.pw_gamma[i + 1](b), atol=1e-12):
                bad = 'discontinuous at break {}'.format(i + 1)
    # whole-curve evaluation of argument arrays that mix the pieces, in any
    # order: every entry must land where the piece containing it puts it
    allx, ref = [], []
    for i, g in enumerate(gamma.pw_gamma):
        a, b = ps[i], ps[i + 1]
        for x in a + (b - a) * np.linspace(0.0, 1.0, 7)[:-1]:
            allx.append(float(x))
            ref.append(np.ravel(g(float(x))))
    allx, ref = np.array(allx), np.array(ref).T
    rng = stream(order_seed, 'eval-order')
    perm = list(range(len(allx)))
    rng.shuffle(perm)
    orders = [list(range(len(allx))), list(range(len(allx)))[::-1], perm,
              [perm[0], perm[1]] if allx[perm[0]] > allx[perm[1]] else
              [perm[1], perm[0]]]
    for o in orders:
        got = np.asarray(gamma.eval(allx[o]))
        if got.shape != (2, len(o)) or not np.allclose(
                got, ref[:, o], atol=1e-12, rtol=0):
            bad = 'eval of an argument array mixing pieces ({})'.format(
                'ascending' if o == orders[0] else 'descending'
                if o == orders[1] else 'unordered')
    for k in perm[:4]:
        if not np.allclose(np.ravel(gamma.eval(float(allx[k]))), ref[:, k],
                           atol=1e-12, rtol=0):
            bad = 'eval of a scalar'
    cov.inc('curve_clause_direct')
    if bad:
        raise Violation(PROPERTY, 'curve', 'curve-clause/' + name,
                        {'why': bad}, {'curve': name})


def generate(seed, cfg):
    return meshsim.gen_run(seed, cfg)


def execute(run, cov, log):
    from sim.core import H as _H
    curve_clause(run['config']['curve'], cov, _H(run))
    case = l0common.execute_history(PROPERTY, run, cov, log, dict(MODE), OWN)
    cfg = run['config']
    if cfg.get('time') is not None and len(cfg['time']) > 3:
        cov.inc('probe.three_or_more_slabs')
    if cfg.get('time') or cfg.get('space'):
        from sim.core import H
        cov.add('nontrivial_runs', H(run))


def shrink(run):
    return meshsim.shrink_run(run)


sample_of = l0common.sample_of
preload = l0common.preload

LEVEL_TEXT = ('Seeded search over (curve, initial grids, history); the piece '
              'assignment and the three-elements-per-slab clause are checked '
              'after the constructor and after every operation.')
DESIGN_REF = 'DESIGN.md section 2 (C18)'
LEVEL_NOTE = ('The curve clause is a direct evaluation riding along, not '
              'simulation evidence; random polygons are not generated.')
TECHNIQUE = ('deterministic simulation: seeded configuration + history '
             'search with invariants after every step, ddmin replay')

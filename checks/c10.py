"""C10 -- reported edge neighbours are exactly the geometric neighbours."""
from checks import l0common
from sim import meshsim

PROPERTY = 'C10'
LEVEL = 'exploration'
ENGINE = l0common.ENGINE
COMPONENTS_REAL = l0common.COMPONENTS_REAL
COMPONENTS_STUBBED = l0common.COMPONENTS_STUBBED
ASSUMPTIONS = [
    'geometric neighbours are computed from the float intervals of the '
    'actual leaves (independent of the half-edge links and of RefMesh)',
    'the model adopts the implementation leaf set after every op: a wrong '
    'leaf set is C02, not C10', 'seeded search, not exhaustive enumeration'
]
RULE = ('same history generator as C02; after the constructor and after '
        'every op, for every leaf and each of its four edges the reported '
        'neighbour list is compared with the leaves sharing a piece of '
        'positive length of that edge; a client op extends the lists it '
        'was handed (they are the client\'s to keep); '
        'positive length of that edge (seam identified when glued); '
        'non-trivial = >= 1 op; distinct = distinct (config, op list)')

W = {
    'client_patch': 0.8,
    'bisect': 10,
    'uniform': 0.3,
    'uniform_space': 0.3,
    'dorfler_iso': 0.4,
    'dorfler_aniso': 0.6,
    'grading': 0.2
}
TIERS = {
    'quick': {'runs': 8000, 'budget_s': 150, 'leaf_cap': 250, 'max_ops': 120,
              'weights': W},
    'thorough': {'runs': 120000, 'budget_s': 1500, 'leaf_cap': 500,
                 'max_ops': 200, 'weights': W},
}
MODE = {'compare': False, 'model': True, 'post': ['neighbours']}
OWN = {
    'neighbour-assert': 1, 'neighbour-stale': 1, 'neighbour-set': 1,
    'neighbour-count': 1, 'neighbour-flags': 1, 'neighbour-empty': 1,
    'neighbour-asymmetric': 1
}


def generate(seed, cfg):
    return meshsim.gen_run(seed, cfg)


def execute(run, cov, log):
    l0common.execute_history(PROPERTY, run, cov, log, dict(MODE), OWN)


def shrink(run):
    return meshsim.shrink_run(run)


sample_of = l0common.sample_of
preload = l0common.preload

LEVEL_TEXT = ('Seeded search over operation histories; after every '
              'operation every edge of every leaf is compared with the '
              'geometric neighbour relation computed from float intervals.')
DESIGN_REF = 'DESIGN.md section 2 (C02/C10)'
LEVEL_NOTE = ('Trusted: the float-geometry neighbour computation in '
              'sim/meshsim.py:check_neighbours; histories sampled, not '
              'enumerated.')
TECHNIQUE = ('deterministic simulation: seeded operation-history search with '
             'a geometric neighbour oracle after every step, ddmin replay')


def evidence_extra(cov):
    return {'small_config_state_coverage': l0common.small_config_coverage(cov)}

"""C09 -- Sobolev and weighted-L2 indicators equal their definition on every
patch; pool, serial and shortcut paths agree."""
from sim import estimsim

PROPERTY = 'C09'
LEVEL = 'exploration'
ENGINE = 'L1-estimsim'
COMPONENTS_REAL = [
    'src/error_estimator.py: ErrorEstimator.estimate_sobolev, '
    'estimate_weighted_l2, sobolev_space, sobolev_time, weighted_l2 and the '
    'MP_estim_* worker functions (unmodified)',
    'src/norms.py: Slobodeckij; src/mesh.py (histories, neighbour lookup)',
    'worker processes: real os.fork() children (forked snapshot carries the '
    'residual closure handed over through module globals)'
]
COMPONENTS_STUBBED = [
    'multiprocessing -> sim/simmp.py (seeded scheduler, 1..16 workers)',
    'time.time -> sim/simclock.py',
    'the residual is a synthetic parametric function, not V Phi - g '
    '(that coupling is C03)'
]
ASSUMPTIONS = [
    'reference patch values: numpy Gauss-Legendre with Duffy / square-root '
    'substitutions (sim/refnum.py), evaluated at two resolutions and only '
    'judged when they agree 20x inside the tolerance (else counted '
    'unresolved, never a violation)',
    'tolerances are the property\'s: 1e-8 relative for polynomial residuals '
    'within the exactness range on straight same-side patches / time '
    'patches / L2; 1e-4 for smooth residuals when all four orders are >= 17; '
    'no definitional judgement otherwise (patches counted as unjudged)',
    'polynomial-in-x_hat residuals are not periodic, so patches through the '
    'closing seam are judged with the embedded-coordinate families only'
]
RULE = ('seeded (closed curve, bisection history <= ~40 leaves, four odd '
        'quadrature orders in 1..19, residual from the polynomial / '
        'embedded-trigonometric families) cases; ops: assembled Sobolev / '
        'weighted-L2 vectors serial vs pool (1..16 workers, seeded schedule, '
        'element order impl/canonical/permuted), rows vs direct evaluation, '
        'per-patch neighbour ids vs geometry, per-patch value vs RefNum, '
        'refinement between ops; non-trivial = >= 1 op; distinct = distinct '
        'explicit run description')
TIERS = {
    'quick': {'runs': 2400, 'budget_s': 170, 'max_ops': 4, 'n_direct': 3,
              'wall_cap': 600},
    'thorough': {'runs': 80000, 'budget_s': 2400, 'max_ops': 6,
                 'n_direct': 6, 'sizes': [4, 8, 12, 16, 24, 40],
                 'wall_cap': 900},
}


def generate(seed, cfg):
    return estimsim.gen_run(seed, cfg)


def execute(run, cov, log):
    estimsim.execute(run, cov, log)


def preload():
    from sim import seams
    seams.preload()


def shrink(run):
    return estimsim.shrink_run(run)


def sample_of(run):
    return {k: run[k] for k in ('curve', 'orders', 'residual', 'ops')} | {
        'n_history': len(run['history'])}


def evidence_extra(cov):
    return {
        'pool_interleavings_distinct': len(cov.s.get('pool_interleavings', ())),
        'workers_hist': cov.group('workers_hist'),
        'patches_judged': cov.group('patches_judged'),
        'patches_unjudged': cov.n.get('patches_unjudged', 0),
    }


LEVEL_TEXT = ('Seeded search over histories, worker counts and schedules; '
              'pool vs serial bitwise, assembled vs direct to rounding, and '
              'every sampled patch against an independent evaluation of its '
              'defining double integral.')
DESIGN_REF = 'DESIGN.md section 2 (C09), 1.7 (RefNum)'
LEVEL_NOTE = ('Trusted: sim/refnum.py; tolerances as stated in the property; '
              'patches outside the stated tolerance classes are not judged.')
TECHNIQUE = ('deterministic simulation: seeded history + schedule search '
             'under a simulated process pool, reference-quadrature oracle, '
             'ddmin replay')

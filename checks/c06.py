"""C06 -- Doerfler marking refines a minimal bulk set, in the marked
directions."""
from checks import l0common
from sim import meshsim

PROPERTY = 'C06'
LEVEL = 'exploration'
ENGINE = l0common.ENGINE
COMPONENTS_REAL = l0common.COMPONENTS_REAL
COMPONENTS_STUBBED = l0common.COMPONENTS_STUBBED
ASSUMPTIONS = [
    'marked set = shortest prefix of the descending order reaching theta^2 * '
    'total, computed in exact rational arithmetic; indicator vectors with a '
    'prefix sum within 1e-9 (relative) of the threshold, or with more than 40 '
    'admissible tie-breaks, are not judged (counted as skipped)',
    'all-zero indicator vectors are not generated (property silent)',
    'prefix ops (plain bisections etc.) are not judged here: the model adopts '
    'the implementation state before the marking step'
]
RULE = ('seeded histories ending in (and interleaved with) '
        'dorfler_refine_isotropic/anisotropic calls with indicators from the '
        'classes random / many zeros / small integers (ties) / one dominant '
        'entry / 14 decades wide, theta in [1e-3, 1-1e-6]; the result must '
        'equal the RefMesh closure of the exactly marked set for some '
        'tie-break; non-trivial = run contains >= 1 marking step on a mesh '
        'with >= 2 leaves; distinct = distinct (config, op list)')

W = {'bisect': 8, 'uniform': 0.2, 'uniform_space': 0.2, 'dorfler_iso': 2,
     'dorfler_aniso': 3, 'grading': 0.0}
TIERS = {
    'quick': {'runs': 8000, 'budget_s': 150, 'leaf_cap': 200, 'max_ops': 80,
              'weights': W, 'tail': ['dorfler_iso', 'dorfler_aniso'],
              'p_short': 0.45},
    'thorough': {'runs': 100000, 'budget_s': 1500, 'leaf_cap': 400,
                 'max_ops': 200, 'weights': W,
                 'tail': ['dorfler_iso', 'dorfler_aniso'], 'p_short': 0.4},
}
MODE = {'compare': False, 'dorfler_oracle': True,
        'post': ['bookkeeping', 'neighbours']}


def _at_dorfler(f):
    return f.site.startswith('dorfler')


OWN = {k: _at_dorfler for k in (
    'dorfler-result', 'exception', 'nontermination', 'tiling', 'coarsened',
    'irregular', 'bookkeeping', 'vertices', 'neighbour-assert',
    'neighbour-stale', 'neighbour-set', 'neighbour-count', 'neighbour-flags',
    'neighbour-empty', 'neighbour-asymmetric')}


def generate(seed, cfg):
    return meshsim.gen_run(seed, cfg)


def execute(run, cov, log):
    n0 = cov.n.get('opkind.dorfler_iso', 0) + cov.n.get(
        'opkind.dorfler_aniso', 0)
    l0common.execute_history(PROPERTY, run, cov, log, dict(MODE), OWN)


def shrink(run):
    return meshsim.shrink_run(run)


sample_of = l0common.sample_of
preload = l0common.preload

LEVEL_TEXT = ('Seeded search over (history, indicator vector, theta); the '
              'implementation result is compared with the exact-rational '
              'marking followed by the reference closure, existentially over '
              'tie-breaks.')
DESIGN_REF = 'DESIGN.md section 2 (C06)'
LEVEL_NOTE = ('Trusted: RefMesh closure and exact-rational prefix rule in '
              'sim/meshsim.py (mark_exact, apply_marks); near-threshold and '
              'many-tie vectors are skipped, stated in evidence.')
TECHNIQUE = ('deterministic simulation: seeded history + indicator search '
             'against an exact-arithmetic marking model and reference '
             'closure, ddmin replay')

"""C02 -- mesh leaves tile the cylinder, minimally and 1-irregularly."""
from checks import l0common
from sim import meshsim

PROPERTY = 'C02'
LEVEL = 'exploration'
ENGINE = l0common.ENGINE
COMPONENTS_REAL = l0common.COMPONENTS_REAL
COMPONENTS_STUBBED = l0common.COMPONENTS_STUBBED
ASSUMPTIONS = [
    'RefMesh (integer rectangles + geometric neighbours + least-fixpoint '
    'closure) is the definition of "smallest 1-irregular refinement"',
    'after a Doerfler step the leaf set must equal the reference closure of '
    'the exactly marked set (same oracle as C06, ambiguous vectors skipped); '
    'grading is opaque here: only tiling, refinement-only, 1-irregularity '
    'and bookkeeping are judged after it (C19)', 'seeded search, not exhaustive enumeration'
]
RULE = ('seeded operation histories (bisect time/space/both, uniform, '
        'uniform_space, Doerfler iso/aniso, grading) on seeded initial meshes '
        '(plain open/glued tensor grids incl. non-dyadic floats, and the five '
        'curves), executed against the real Mesh in lock-step with RefMesh; '
        'a run is non-trivial when it has >= 1 op; distinct = distinct '
        '(config, op list)')

W = {
    'bisect': 10,
    'uniform': 0.4,
    'uniform_space': 0.5,
    'dorfler_iso': 0.5,
    'dorfler_aniso': 0.7,
    'grading': 0.25
}
TIERS = {
    'quick': {'runs': 8000, 'budget_s': 150, 'leaf_cap': 250, 'max_ops': 120,
              'weights': W, 'p_seam': 0.12},
    'thorough': {'runs': 120000, 'budget_s': 1500, 'leaf_cap': 500,
                 'max_ops': 200, 'weights': W, 'p_seam': 0.12},
}
MODE = {
    'compare': True,
    # marking-driven refinement: "smallest refinement containing the
    # requested bisections" is judged with the exact marking model (the same
    # oracle as C06); grading stays opaque
    'dorfler_oracle': True,
    'post': ['floats', 'bookkeeping', 'gmsh'],
}
OWN = {
    'tiling': 1, 'minimality': 1, 'dorfler-result': 1, 'coarsened': 1, 'irregular': 1,
    'geometry': 1, 'levels': 1, 'bookkeeping': 1, 'vertices': 1, 'gmsh': 1,
    'nontermination': 1,
    # an exception inside a plain bisection / uniform refinement breaks the
    # property; inside Doerfler or grading it is C06's / C19's business
    'exception': lambda f: f.site.split('/')[0] in ('bisect', 'uniform',
                                                    'uniform_space'),
}


def generate(seed, cfg):
    return meshsim.gen_run(seed, cfg)


def execute(run, cov, log):
    mode = dict(MODE)
    l0common.execute_history(PROPERTY, run, cov, log, mode, OWN)


def shrink(run):
    return meshsim.shrink_run(run)


sample_of = l0common.sample_of
preload = l0common.preload

LEVEL_TEXT = ('Seeded search over operation histories and initial '
              'configurations with the real mesh checked against an '
              'independent reference model after every operation; a clean '
              'batch is evidence, not proof.  Histories are the only '
              'nondeterminism this property has, so history search is the '
              'right instrument.')
DESIGN_REF = 'DESIGN.md section 2 (C02/C10), 1.7 (RefMesh)'
LEVEL_NOTE = ('Trusted: RefMesh (sim/refmesh.py) as definition of the '
              'smallest 1-irregular refinement; integer logical coordinates '
              'derived from the implementation parent chain and '
              'cross-checked against the float intervals.')
TECHNIQUE = ('deterministic simulation: seeded operation-history search in '
             'lock-step with an executable reference model, ddmin replay')


def evidence_extra(cov):
    return {'small_config_state_coverage': l0common.small_config_coverage(cov)}

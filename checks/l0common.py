"""Shared plumbing of the L0 (mesh history) checks."""
from sim import meshsim
from sim.core import H, SkipRun, Violation
from sim.meshsim import Finding, MeshCase, apply_op

ENGINE = 'L0-meshsim'
COMPONENTS_REAL = [
    'src/mesh.py: Mesh, MeshParametrized, Element, Edge, Vertex '
    '(unmodified, imported from $VERIF_REPO)',
    'src/parametrization.py: curves'
]
COMPONENTS_STUBBED = [
    'none (there is no I/O, clock or pool on this surface; the simulated '
    'dimension is the operation history and the initial configuration)'
]


def execute_history(prop, run, cov, log, mode, own_kinds, ctor_kinds=()):
    """Runs a history; Findings whose kind is in own_kinds become Violations
    of prop, all others end the run as a skip (foreign property)."""
    def convert(f):
        own = own_kinds.get(f.kind)
        if callable(own):
            own = own(f)
        if own:
            return Violation(prop, f.kind, f.site, f.detail, f.match)
        return SkipRun('foreign-' + f.kind)

    try:
        case = MeshCase(run['config'])
    except Finding as f:
        raise convert(f)
    except AssertionError as ex:
        if 'ctor-assert' in own_kinds:
            raise Violation(prop, 'exception', 'constructor/AssertionError',
                            {'config': run['config']})
        raise SkipRun('config-rejected')
    cov.add('configs', run['config'])
    try:
        for p in mode.get('post0', mode.get('post', ())):
            if p == 'neighbours':
                case.check_neighbours('constructor', cov)
            else:
                getattr(case, 'check_' + p)('constructor')
        for op in run['ops']:
            apply_op(case, op, cov, mode, log)
    except Finding as f:
        raise convert(f)
    if meshsim.nontrivial(run):
        cov.add('nontrivial_runs', H(run))
    return case


def sample_of(run):
    return {'config': run['config'], 'ops': run['ops'][:12],
            'n_ops': len(run['ops'])}


def preload():
    from sim import repo
    repo.mod('src.mesh')
    repo.mod('src.parametrization')


def small_config_coverage(cov, depth=3):
    """How many of the states reachable within `depth` bisections of the
    smallest initial meshes (counted in the model alone) the sampled runs of
    this batch visited."""
    out = {}
    visited = cov.s.get('mesh_states', set())
    for (n_t, n_x, glued) in ((1, 1, False), (1, 1, True), (1, 2, True),
                              (2, 1, False)):
        reach = meshsim.reachable_states(n_t, n_x, glued, depth)
        out['{}x{}{}'.format(n_t, n_x, '-glued' if glued else '-open')] = {
            'reachable_within_depth_{}'.format(depth): len(reach),
            'visited_by_this_batch': len(reach & visited)
        }
    return out

"""C19 -- grading terminates with every leaf in the parabolic window."""
from checks import l0common
from sim import meshsim

PROPERTY = 'C19'
LEVEL = 'exploration'
ENGINE = l0common.ENGINE
COMPONENTS_REAL = l0common.COMPONENTS_REAL
COMPONENTS_STUBBED = l0common.COMPONENTS_STUBBED
ASSUMPTIONS = [
    'termination is judged by a deterministic budget of interpreter events '
    '(function entries + loop back-edges inside src/mesh.py, counted through '
    'sys.monitoring), 50x what the model sweep predicts -- never by wall time',
    'states whose model grading exceeds the leaf cap are skipped (grading '
    'legitimately explodes on very anisotropic inputs)',
    'states with a leaf within 1e-12 (relative, not exact) of a window '
    'boundary are skipped'
]
RULE = ('seeded histories with time/space bias in {0.2, 0.5, 0.8} on all '
        'curves and plain meshes, each followed by (and interleaved with) '
        'refine_grading(sigma in {1, 1.5, 2}, K=4); oracle: no exception, '
        'within the event budget, only refines, every leaf in the window, '
        'tiling / 1-irregularity / bookkeeping / neighbours intact; '
        'non-trivial = >= 1 grading op after >= 1 other op; distinct = '
        'distinct (config, op list)')

W = {'bisect': 10, 'uniform': 0.2, 'uniform_space': 0.3, 'dorfler_iso': 0.3,
     'dorfler_aniso': 0.5, 'grading': 1.0}
TIERS = {
    'quick': {'runs': 5000, 'budget_s': 150, 'leaf_cap': 400, 'max_ops': 60,
              'weights': W, 'tail': ['grading'], 'p_short': 0.4,
              'wall_cap': 300},
    'thorough': {'runs': 60000, 'budget_s': 1500, 'leaf_cap': 1500,
                 'max_ops': 200, 'weights': W, 'tail': ['grading'],
                 'p_short': 0.3, 'wall_cap': 600},
}
MODE = {'compare': False, 'grading_oracle': True,
        'post': ['bookkeeping', 'neighbours']}


def _at(f):
    return f.site.startswith('grading')


OWN = {k: _at for k in (
    'grading-window', 'exception', 'nontermination', 'tiling', 'coarsened',
    'irregular', 'bookkeeping', 'vertices', 'neighbour-assert',
    'neighbour-stale', 'neighbour-set', 'neighbour-count', 'neighbour-flags',
    'neighbour-empty', 'neighbour-asymmetric')}


def generate(seed, cfg):
    return meshsim.gen_run(seed, cfg)


def execute(run, cov, log):
    mode = dict(MODE)
    l0common.execute_history(PROPERTY, run, cov, log, mode, OWN)


def shrink(run):
    return meshsim.shrink_run(run)


sample_of = l0common.sample_of
preload = l0common.preload

LEVEL_TEXT = ('Seeded search over histories; grading is run on the real '
              'mesh under a deterministic interpreter-event budget and its '
              'postconditions are checked on every leaf.')
DESIGN_REF = 'DESIGN.md section 2 (C19)'
LEVEL_NOTE = ('Trusted: the window predicate as stated; the model sweep only '
              'gates tractable inputs and sizes the event budget.')
TECHNIQUE = ('deterministic simulation: seeded history search, '
             'postcondition oracle, deterministic step budget, ddmin replay')

"""C16 -- domain quadtree: tiling, 2:1 balance, boundary-segment targeting."""
from sim import quadsim, simset
from sim.core import H, SkipRun, Violation
from sim.meshsim import Finding

PROPERTY = 'C16'
LEVEL = 'exploration'
ENGINE = 'L0-quadsim'
COMPONENTS_REAL = [
    'src/initial_mesh.py: InitialMesh, Element, Vertex, UnitSquare/PiSquare/'
    'LShape factories (unmodified, imported from $VERIF_REPO)',
    'src/parametrization.py: the boundary pieces that produce the segment '
    'end points exactly as InitialOperator.linform passes them'
]
COMPONENTS_STUBBED = [
    'builtin set inside src.initial_mesh -> SimSet (seeded iteration order, '
    'redrawn after every mutation)'
]
ASSUMPTIONS = [
    'every run is executed twice, on twin meshes under different set-order '
    'streams; both must satisfy the oracle and end in the same leaf set',
    'targeting calls whose postcondition is unsatisfiable (the boundary leaf '
    'is already smaller than the segment) are not judged',
    'termination of targeting is a deterministic interpreter-event budget, '
    'not wall time', 'minimality of the balance closure is measured, not '
    'asserted (the property does not state it)'
]
RULE = ('seeded op histories {refine leaf, uniform_refine, refine_msh_bdr on '
        'dyadic sub-segments [k/2^l,(k+1)/2^l], l<=10, of every unit boundary '
        'piece, both orientations, end points as tuple/list/2x1 array} on '
        'unit square, pi square and L-shape, fresh and pre-refined, with the '
        'leaf-set iteration order drawn from a seeded stream per op; '
        'non-trivial = >= 1 op; distinct = distinct (domain, op list)')
W = {'refine': 6, 'uniform': 0.5, 'target': 4}
TIERS = {
    'quick': {'runs': 6000, 'budget_s': 150, 'leaf_cap': 250, 'max_ops': 30,
              'weights': W},
    'thorough': {'runs': 100000, 'budget_s': 1500, 'leaf_cap': 600,
                 'max_ops': 80, 'weights': W},
}
OWN = ('tiling', 'coarsened', 'balance', 'geometry', 'levels', 'vertices',
       'bookkeeping', 'not-refined', 'target-return', 'target-owner',
       'target-vertex', 'order-dependent', 'nontermination', 'exception')


def generate(seed, cfg):
    return quadsim.gen_run(seed, cfg)


def execute(run, cov, log):
    o0 = simset.STATS['iterations']
    try:
        cases = [quadsim.QuadCase(run['domain'], 1),
                 quadsim.QuadCase(run['domain'], 2)]
        for op in run['ops']:
            quadsim.apply_op(cases, op, cov, log)
    except Finding as f:
        if f.kind in OWN:
            raise Violation(PROPERTY, f.kind, f.site, f.detail, f.match)
        raise SkipRun('foreign-' + f.kind)
    finally:
        cov.inc('set_iterations_decided', simset.STATS['iterations'] - o0)
    if run['ops']:
        cov.add('nontrivial_runs', H(run))
    cov.add('domains', run['domain'])
    if run.get('blowup'):
        cov.inc('probe.blowup_mesh_tens_of_thousands_of_leaves')


def preload():
    from sim import repo
    repo.mod('src.initial_mesh')
    repo.mod('src.parametrization')


def shrink(run):
    return quadsim.shrink_run(run)


def sample_of(run):
    return {'domain': run['domain'], 'ops': run['ops'][:10],
            'blowup': bool(run.get('blowup')),
            'n_ops': len(run['ops'])}


LEVEL_TEXT = ('Seeded search over refinement/targeting histories and over '
              'the hash-set iteration order (the one real nondeterminism of '
              'this module), with exact tiling/balance/vertex checks and the '
              'targeting postcondition after every op on twin instances.')
DESIGN_REF = 'DESIGN.md section 2 (C16)'
LEVEL_NOTE = ('Trusted: exact integer tiling/balance predicates in '
              'sim/refquad.py; SimSet reproduces CPython set semantics '
              '(stable order while unmodified, error on mutation during '
              'iteration).')
TECHNIQUE = ('deterministic simulation: seeded history search with the set '
             'iteration order behind a seam, twin-run order-independence '
             'oracle, deterministic step budget, ddmin replay')

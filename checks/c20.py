"""C20 -- h-h/2 and hierarchical estimators equal their definitions;
Prolongate preserves values."""
from sim import hh2sim

PROPERTY = 'C20'
LEVEL = 'exploration'
ENGINE = 'L1-hh2sim'
COMPONENTS_REAL = [
    'src/h_h2_error_estimator.py: HH2ErrorEstimator.estimate (serial and '
    'pool)', 'src/hierarchical_error_estimator.py: DummyElement.'
    'uniform_refinement, HierarchicalErrorEstimator.estimate (always pool)',
    'src/mesh.py: Prolongate, uniform_refine (for the replayed copy)',
    'src/single_layer.py: bilform_matrix (inline / pool paths), bilform; '
    'src/initial_potential.py: linform_vector, linform',
    'worker processes: real os.fork() children'
]
COMPONENTS_STUBBED = [
    'multiprocessing -> sim/simmp.py (seeded scheduler, 1..16 workers)',
    'time.time -> sim/simclock.py',
    'builtin set in src.initial_mesh -> sim/simset.py',
    'Dirichlet data are synthetic element functionals (h_t*h_x, t^2 moment, '
    'a linear ramp), initial data the constant and the sine product'
]
ASSUMPTIONS = [
    'trusted base: bilform / linform values themselves (C01/C08 are not '
    'claimed); RefEstim re-derives everything else from a replayed mesh that '
    'is really bisected, children identified by geometry',
    'h-h/2 compared at 1e-8 relative; planted data A_fine @ prolong(Phi) '
    'must give <= 1e-7 of the energy norm of the prolongation; hierarchical '
    'indicators at 1e-8 of the uncancelled magnitude (sum_q |data_q - '
    '(V Phi)_q|)^2 / <V psi, psi>',
    'initial data only on <= 6 coarse elements (cost of linform)'
]
RULE = ('seeded (closed curve, history, operator configuration, problem '
        'with/without initial data, density random or Galerkin, element '
        'order impl/canonical/permuted) cases; ops: h-h/2 serial and pool, '
        'h-h/2 with planted data, hierarchical estimator under a seeded '
        'pool schedule, Prolongate between any two meshes along the '
        'history, refinement between ops; non-trivial = >= 1 op; distinct = '
        'distinct explicit run description')
TIERS = {
    'quick': {'runs': 1600, 'budget_s': 170, 'max_ops': 3, 'wall_cap': 600},
    'thorough': {'runs': 40000, 'budget_s': 2400, 'max_ops': 4,
                 'sizes': [4, 6, 8, 10, 12, 16, 24], 'wall_cap': 900},
}


def generate(seed, cfg):
    return hh2sim.gen_run(seed, cfg)


def execute(run, cov, log):
    hh2sim.execute(run, cov, log)


def preload():
    from sim import seams
    seams.preload()


def shrink(run):
    return hh2sim.shrink_run(run)


def sample_of(run):
    return {'curve': run['curve'], 'cfg': run['cfg'], 'ops': run['ops'],
            'n_history': len(run['history'])}


def evidence_extra(cov):
    return {
        'pool_interleavings_distinct': len(cov.s.get('pool_interleavings', ())),
        'workers_hist': cov.group('workers_hist'),
    }


LEVEL_TEXT = ('Seeded search over histories, problems, densities, element '
              'orders, worker counts and schedules; every estimator value '
              'is recomputed from its definition on a really bisected '
              'replayed copy of the mesh.')
DESIGN_REF = 'DESIGN.md section 2 (C20), 1.7 (RefEstim)'
LEVEL_NOTE = ('Trusted: bilform/linform entries; numpy.linalg.solve for the '
              'reference fine solve.')
TECHNIQUE = ('deterministic simulation: seeded history + schedule search '
             'under a simulated process pool, independent re-derivation '
             'oracle on a replayed mesh, ddmin replay')

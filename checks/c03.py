"""C03 -- Galerkin orthogonality of the estimator's residual."""
from sim import orthosim

PROPERTY = 'C03'
LEVEL = 'exploration'
ENGINE = 'L2-driver'
COMPONENTS_REAL = [
    'example.py unmodified, run through runpy as __main__ in a forked child '
    '(L2 runs): argument parsing, mesh setup, assembly, solve, estimators, '
    'marking, refinement loop',
    'problems.py: problem_helper (u0, closed-form M0u0, g, g-linform)',
    'src/single_layer.py (bilform_matrix all paths, evaluate, '
    'evaluate_exact), src/initial_potential.py (linform_vector), '
    'src/error_estimator.py (residual), src/initial_mesh.py, src/mesh.py',
    'numpy.linalg.solve (observed, not replaced)',
    'worker processes: real os.fork() children'
]
COMPONENTS_STUBBED = [
    'multiprocessing -> sim/simmp.py; numpy.load/save -> sim/simdisk.py '
    '(torn SL_/M0_ writes, failing loads, crash = os._exit at a seam event '
    'in L2); time.time -> sim/simclock.py; builtin set in src.initial_mesh '
    '-> sim/simset.py',
    'L1 runs replace the driver loop by the same five statements '
    '(example.py:190-202 + ErrorEstimator.residual) on seeded bisection '
    'histories'
]
ASSUMPTIONS = [
    'integrals by sim/refnum.py + sim/orthosim.py: leaf split at every mesh '
    'break point inside it, cubic smooth-step substitution, tensor '
    'Gauss-Legendre at increasing resolution until two successive values '
    'agree within 20% of the tolerance (else unresolved, never a violation); '
    'a violation needs |int r| minus the resolution error above 5e-5 * '
    'int|r| + 1e-12',
    'elements with h_x^2/h_t > 32 are outside the property and skipped; a '
    'driver run stops when its mesh leaves that range',
    'points handed to the residual keep the documented 1e-5 distance from '
    'element end points', 'a seeded subset of leaves is judged per solve'
]
RULE = ('seeded cases over every problem x domain the driver accepts, both '
        'values of the straight-panel switch: (L1) aspect-filtered bisection '
        'history, assembly through a seeded path (inline / serial / pool '
        'with 1..16 workers / warm or torn cache, restart), solve, residual; '
        '(L2) the real driver for 1-3 adaptive iterations with seeded '
        'refinement strategy, theta, worker count, optional crash + restart; '
        'non-trivial = a solve happened; distinct = distinct explicit run '
        'description')
TIERS = {
    'quick': {'runs': 1800, 'budget_s': 170, 'wall_cap': 900, 'p_l2': 0.25,
              'n_check': 3},
    'thorough': {'runs': 12000, 'budget_s': 3000, 'wall_cap': 1800,
                 'p_l2': 0.3, 'n_check': 6,
                 'sizes': [4, 8, 12, 16, 24, 40, 64],
                 'sizes_u0': [4, 6, 8, 12]},
}


def generate(seed, cfg):
    return orthosim.gen_run(seed, cfg)


def execute(run, cov, log):
    orthosim.execute(run, cov, log)


def preload():
    from sim import seams
    seams.preload()


def shrink(run):
    return orthosim.shrink_run(run)


def sample_of(run):
    r = dict(run)
    if 'history' in r:
        r['n_history'] = len(r.pop('history'))
    return r


def evidence_extra(cov):
    return {
        'pool_interleavings_distinct': len(cov.s.get('pool_interleavings', ())),
        'workers_hist': cov.group('workers_hist'),
        'resolution_used': cov.group('resolution_used'),
        'configs_distinct': len(cov.s.get('configs', ())),
    }


LEVEL_TEXT = ('Seeded search with the end-to-end invariant checked while '
              'simulated driver runs and operator sessions proceed, under '
              'seeded schedules, cache faults, crashes and restarts.')
DESIGN_REF = 'DESIGN.md section 2 (C03), 1.5 (L2)'
LEVEL_NOTE = ('Trusted: the independent graded quadrature of the oracle and '
              'the residual closure handed to the estimators (its pointwise '
              'accuracy is C07, not claimed).')
TECHNIQUE = ('deterministic simulation with fault injection: the unmodified '
             'driver as a killable process plus operator sessions under a '
             'simulated pool/disk, invariant oracle by reference quadrature, '
             'ddmin replay')

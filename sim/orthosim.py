"""C03 engine: Galerkin orthogonality of the estimator's residual.

L1: operator sessions (mesh history -> assemble through a seeded path ->
solve -> ErrorEstimator.residual) under SimPool / SimDisk / SimSet.
The oracle integrates the residual over a leaf with an independent graded
rule (RefNum): the leaf is split at every time and parameter break point of
the mesh inside it, each piece gets a tensor Gauss-Legendre rule after a
smoothing substitution that removes the square-root (time) and logarithmic
(space) end-point behaviour; two resolutions."""
import os
import shutil

import numpy as np

from . import meshsim, refnum, repo, seams, simclock, simdisk, simmp, simset
from .core import H, SkipRun, Violation, scratch_root, stream

PROP = 'C03'
PROBLEMS = {
    'Smooth': ['UnitSquare', 'PiSquare'],
    'Singular': ['UnitSquare', 'LShape'],
    'Dirichlet': ['UnitSquare', 'PiSquare', 'LShape', 'Circle'],
    'MildSingular': ['UnitSquare', 'PiSquare', 'LShape', 'Circle'],
}
_run_counter = [0]


def smooth(u):
    """Cubic smooth-step and its derivative: t - a ~ 3 u^2 at both ends,
    which turns sqrt(t - a) into an analytic function of u and softens the
    d*log(d) behaviour in space (measured: the mean/abs ratio of a correct
    residual settles below 5e-6 from 16 points per direction on)."""
    return u * u * (3 - 2 * u), 6 * u * (1 - u)


def integrate_leaf(residual, gamma, t_breaks, x_breaks, n):
    """(int r, int |r|) over the box cut at the given break points."""
    u, w = refnum.gl(n)
    s, ds = smooth(u)
    I = A = 0.0
    for ta, tb in zip(t_breaks[:-1], t_breaks[1:]):
        for xa, xb in zip(x_breaks[:-1], x_breaks[1:]):
            T = ta + (tb - ta) * s
            # SingleLayerOperator.evaluate documents a precondition: points
            # inside an element stay > 1e-5 away from its end points; the
            # outermost graded nodes (tiny weights) are clamped accordingly
            X = np.clip(xa + (xb - xa) * s, xa + 2e-5, xb - 2e-5)
            WT = (tb - ta) * ds * w
            WX = (xb - xa) * ds * w
            tt = np.repeat(T, n)
            xx = np.tile(X, n)
            ww = np.kron(WT, WX)
            v = np.asarray(residual(tt, xx, gamma), dtype=float)
            I += float(np.dot(ww, v))
            A += float(np.dot(ww, np.abs(v)))
    return I, A


def breaks_inside(elem, leaves):
    t0, t1 = elem.time_interval
    x0, x1 = elem.space_interval
    tb = {t0, t1}
    xb = {x0, x1}
    for e in leaves:
        for t in e.time_interval:
            if t0 < t < t1:
                tb.add(t)
        for x in e.space_interval:
            if x0 < x < x1:
                xb.add(x)
    return sorted(float(t) for t in tb), sorted(float(x) for x in xb)


def check_orthogonality(residual, leaves, subset, cov, site, ctx,
                        max_pieces=48):
    """The property's inequality on the given leaves.  Raises Violation."""
    worst = 0.0
    for e in subset:
        asp = e.h_x**2 / e.h_t
        if asp > 32:
            cov.inc('skipped.elem_aspect_gt_32')
            continue
        tb, xb = breaks_inside(e, leaves)
        if (len(tb) - 1) * (len(xb) - 1) > max_pieces:
            cov.inc('skipped.elem_too_many_pieces')
            continue
        prev = None
        ok = False
        for n in (10, 14, 20, 28):
            I, A = integrate_leaf(residual, e.gamma_space, tb, xb, n)
            tol = 5e-5 * A + 1e-12
            if prev is not None and abs(I - prev) <= 0.2 * tol:
                ok = True
                break
            prev = I
        if not ok and abs(I) - 2 * abs(I - prev) <= tol:
            # the two finest resolutions disagree by more than the margin by
            # which the mean exceeds the tolerance: not decidable here
            cov.inc('unresolved')
            continue
        if not ok:
            # not converged to 20 % of the tolerance, but the mean exceeds
            # the tolerance by more than twice the resolution error
            cov.inc('judged_despite_slow_convergence')
        cov.inc('elements_judged')
        cov.inc('resolution_used.{:02d}'.format(n))
        ratio = abs(I) / max(A, 1e-300)
        worst = max(worst, ratio)
        cov.max('max_ratio_mean_over_abs', ratio)
        # judged with the resolution error on the safe side
        if abs(I) - abs(I - prev) > tol:
            d = dict(ctx)
            d.update(elem=repr(e), int_r=I, int_abs_r=A, ratio=ratio,
                     pieces=(len(tb) - 1) * (len(xb) - 1), aspect=asp)
            raise Violation(PROP, 'not-orthogonal', site, d)
    return worst


# ------------------------------------------------------------ L1 sessions --
def build_problem(problem, domain):
    P = repo.mod('problems')
    return P.problem_helper(problem, domain)


class OrthoCase:
    def __init__(self, run, cov, log):
        seams.install()
        self.run, self.cov, self.log = run, cov, log
        _run_counter[0] += 1
        self.root = os.path.join(
            scratch_root(), 'c03-{}-{}'.format(os.getpid(), _run_counter[0]))
        shutil.rmtree(self.root, ignore_errors=True)
        os.makedirs(self.root)
        simclock.reset()

    def close(self):
        simmp.reap_all()
        simdisk.disarm()
        self.cov.inc('sim_time_ms', int(simclock.CLOCK.elapsed() * 1000))
        shutil.rmtree(self.root, ignore_errors=True)

    def session(self):
        run = self.run
        SLm = repo.mod('src.single_layer')
        IPm = repo.mod('src.initial_potential')
        IM = repo.mod('src.initial_mesh')
        EE = repo.mod('src.error_estimator')
        from .hh2sim import build_mesh
        case = build_mesh(run['domain'], run['history'])
        mesh = case.mesh
        data = build_problem(run['problem'], run['domain'])
        cache = os.path.join(self.root, 'data')
        os.makedirs(cache, exist_ok=True)
        SL = SLm.SingleLayerOperator(mesh, pw_exact=run['pw_exact'],
                                     cache_dir=cache)
        M0 = M0u0 = None
        if 'u0' in data:
            M0 = IPm.InitialOperator(
                bdr_mesh=mesh, u0=data['u0'],
                initial_mesh=getattr(IM, run['domain'] + 'BoundaryRefined'),
                cache_dir=cache,
                problem='{}_{}'.format(run['domain'], run['problem']))
            M0u0 = data['M0u0']
        g = data.get('g')
        g_linform = data.get('g-linform')
        est = EE.ErrorEstimator(mesh, N_poly=1, cache_dir=None)
        return case, SL, M0, M0u0, g, g_linform, est

    def arm(self, op):
        f = op.get('faults') or {}
        simmp.arm(op.get('workers', 4), H(op.get('sched_seed', 0)),
                  stats=self.cov, clock=simclock.CLOCK)
        simdisk.arm(stats=self.cov, save_fault=f.get('save'),
                    load_fault=f.get('load'))
        simset.reseed(H(op.get('sched_seed', 0), 'set'))

    def solve_and_check(self, sess, op):
        """One pass exactly as example.py:190-202 + residual + oracle."""
        case, SL, M0, M0u0, g, g_linform, est = sess
        mesh = case.mesh
        elems = list(mesh.leaf_elements)
        N = len(elems)
        ctx = {k: self.run[k] for k in ('problem', 'domain', 'pw_exact')}
        ctx.update(n=N, use_mp=op.get('use_mp'), workers=op.get('workers'))
        try:
            self.arm(op)
            mat = SL.bilform_matrix(elems, elems, use_mp=op['use_mp'])
            path = ('inline' if N * N < 100 else 'hit' if
                    simdisk.STATE['loaded'] else
                    'pool' if simmp.STATE['log'] else 'serial')
            self.cov.inc('path.' + path)
            rhs = np.zeros(N)
            if M0:
                self.arm(dict(op, sched_seed=op.get('sched_seed', 0) + 1))
                rhs = -M0.linform_vector(elems=elems, use_mp=op['use_mp'])
            if g_linform:
                rhs += g_linform(elems)
            Phi = np.linalg.solve(mat, rhs)
            residual = est.residual(elems, Phi, SL, M0u0, g,
                                    SL_exact_eval=self.run['pw_exact'])
        except BaseException as ex:  # noqa
            from .core import HarnessTimeout
            if isinstance(ex, (HarnessTimeout, KeyboardInterrupt, SystemExit)):
                raise
            import traceback
            tb = traceback.extract_tb(ex.__traceback__)
            d = dict(ctx)
            d.update(exception=repr(ex)[:300], where=[
                '{}:{}'.format(x.filename.split('/')[-1], x.lineno)
                for x in tb if '/src/' in x.filename or 'problems' in x.filename
            ][-3:])
            raise Violation(PROP, 'exception',
                            'pipeline/' + type(ex).__name__, d)
        finally:
            simmp.collect()
        rng = stream(op.get('sched_seed', 0), 'subset')
        idx = list(range(N))
        rng.shuffle(idx)
        subset = [elems[i] for i in idx[:op.get('n_check', 3)]]
        try:
            worst = check_orthogonality(residual, elems, subset, self.cov,
                                        'L1/' + path, ctx)
        except Violation:
            raise
        except BaseException as ex:  # noqa
            from .core import HarnessTimeout
            if isinstance(ex, (HarnessTimeout, KeyboardInterrupt, SystemExit)):
                raise
            import traceback
            tb = traceback.extract_tb(ex.__traceback__)
            d = dict(ctx)
            d.update(exception=repr(ex)[:300], where=[
                '{}:{}'.format(x.filename.split('/')[-1], x.lineno)
                for x in tb if '/src/' in x.filename or 'problems' in x.filename
            ][-3:])
            raise Violation(PROP, 'exception',
                            'residual/' + type(ex).__name__, d)
        self.log.append(('solve', N, path, float(np.abs(Phi).sum()),
                         worst))


def execute_l1(run, cov, log):
    c = OrthoCase(run, cov, log)
    refined = []
    try:
        sess = c.session()
        for op in run['ops']:
            cov.inc('ops')
            cov.inc('opkind.' + op['op'])
            if op['op'] == 'solve':
                c.solve_and_check(sess, op)
            elif op['op'] == 'refine':
                from .hh2sim import _NoCov
                for o in op['ops']:
                    meshsim.apply_op(sess[0], o, _NoCov(), {
                        'compare': False, 'model': True}, [])
                refined.extend(op['ops'])
                cov.inc('probe.operator_outlives_refinement')
            elif op['op'] == 'restart':
                c.run = dict(run, history=list(run['history']) + refined)
                sess = c.session()
    except meshsim.Finding as f:
        raise SkipRun('foreign-mesh-' + f.kind)
    finally:
        c.close()
    cov.add('nontrivial_runs', H(run))
    cov.add('configs', (run['problem'], run['domain'], run['pw_exact']))


def aspect_ok(case, limit=32.0):
    for e in case.mesh.leaf_elements:
        if e.h_x**2 / e.h_t > limit:
            return False
    return True


def gen_l1(rng, params):
    from .hh2sim import build_mesh
    problem = rng.choice(list(PROBLEMS))
    domain = rng.choice(PROBLEMS[problem])
    with_u0 = problem in ('Smooth', 'Singular')
    target = rng.choice(params.get('sizes_u0', [4, 6, 8]) if with_u0 else
                        params.get('sizes', [4, 8, 10, 12, 16, 24]))
    # history with aspect filter
    case = build_mesh(domain, [])
    mm = case.model
    hist = []
    guard = 0
    while len(mm.leaves) < target and guard < 100:
        guard += 1
        lf = rng.choice(mm.canonical())
        op = {'op': 'bisect',
              'pt': [(lf[0] + lf[1]) // 2, (lf[2] + lf[3]) // 2],
              'axis': rng.choice([0, 0, 1, 2])}
        trial = mm.copy()
        meshsim.model_apply(case, trial, op, 4000)
        bad = False
        for b in trial.leaves:
            t0, t1, x0, x1 = case.phys(b)
            if (x1 - x0)**2 / (t1 - t0) > 32:
                bad = True
        if bad or len(trial.leaves) > target + 6:
            continue
        mm.adopt(trial.leaves)
        hist.append(op)
    ops = []
    n_ops = rng.choice([1, 2, 2])

    def more_refinement():
        """The operator objects outlive a refinement, as in the driver loop
        from its second iteration on."""
        new = []
        for _ in range(rng.randint(1, 3)):
            lf = rng.choice(mm.canonical())
            op = {'op': 'bisect',
                  'pt': [(lf[0] + lf[1]) // 2, (lf[2] + lf[3]) // 2],
                  'axis': rng.choice([0, 0, 1, 2])}
            trial = mm.copy()
            meshsim.model_apply(case, trial, op, 4000)
            if any((case.phys(b)[3] - case.phys(b)[2])**2 /
                   (case.phys(b)[1] - case.phys(b)[0]) > 32
                   for b in trial.leaves) or len(trial.leaves) > target + 12:
                continue
            mm.adopt(trial.leaves)
            new.append(op)
        return new

    for k in range(n_ops):
        f = {}
        if rng.random() < 0.15:
            f['save'] = {'kind': 'torn', 'cls': rng.choice(
                list(simdisk.TORN_CLASSES)), 'u': rng.random()}
        if rng.random() < 0.1:
            f['load'] = 'EIO'
        op = {'op': 'solve', 'use_mp': rng.random() < 0.7,
              'workers': rng.randint(1, 16),
              'sched_seed': rng.randrange(1 << 30),
              'n_check': params.get('n_check', 3)}
        if f:
            op['faults'] = f
        ops.append(op)
        if k + 1 < n_ops:
            r = rng.random()
            if r < 0.35:
                ops.append({'op': 'restart'})
            elif r < 0.85:
                new = more_refinement()
                if new:
                    ops.append({'op': 'refine', 'ops': new})
    return {'layer': 'L1', 'problem': problem, 'domain': domain,
            'pw_exact': rng.random() < 0.5, 'history': hist, 'ops': ops}


# ------------------------------------------------------------- L2 driver ---
def gen_l2(rng, params):
    problem = rng.choice(list(PROBLEMS))
    domain = rng.choice(PROBLEMS[problem])
    spec = {
        'problem': problem,
        'domain': domain,
        'pw_exact': rng.random() < 0.5,
        'refinement': rng.choice(['uniform', 'isotropic', 'anisotropic',
                                  'anisotropic']),
        'theta': round(rng.uniform(0.3, 0.95), 3),
        'quad': rng.choice(['1111', '1111', '1113', '3111']),
        'h_h2': rng.random() < 0.15 and problem in ('Dirichlet',
                                                     'MildSingular'),
    }
    if problem in ('Dirichlet', 'MildSingular'):
        # other driver switches: the hierarchical estimator, and grading as
        # post-processing of the adaptive refinement (keeps h_x^2/h_t < 4)
        if rng.random() < 0.1:
            spec['hierarchical'] = True
        if spec['refinement'] != 'uniform' and rng.random() < 0.15:
            spec['grading'] = 2
    with_u0 = problem in ('Smooth', 'Singular')
    phases = []
    k_iter = 1 if with_u0 else rng.choice([1, 2, 2, 3])
    if rng.random() < 0.35:
        phases.append({
            'workers': rng.randint(1, 16),
            'sched_seed': rng.randrange(1 << 30),
            'crash': ({'at_event': rng.randint(1, 6),
                       'torn': {'cls': rng.choice(
                           list(simdisk.TORN_CLASSES) + ['none', 'complete']),
                           'u': rng.random()}} if rng.random() < 0.6 else
                      {'at_step': rng.choice([1, 3, 6, 10, 20, 40, 80])})
        })
    phases.append({'workers': rng.randint(1, 16),
                   'sched_seed': rng.randrange(1 << 30)})
    return {'layer': 'L2', 'spec': spec, 'max_iter': k_iter,
            'phases': phases, 'n_check': params.get('n_check', 3)}


def execute_l2(run, cov, log):
    from . import driver
    seams.install()
    _run_counter[0] += 1
    root = os.path.join(scratch_root(),
                        'c03d-{}-{}'.format(os.getpid(), _run_counter[0]))
    shutil.rmtree(root, ignore_errors=True)
    os.makedirs(root)
    spec = run['spec']
    ctx = {k: spec[k] for k in ('problem', 'domain', 'pw_exact',
                                'refinement')}

    def observer(residual, elems, k):
        class _C:
            def __init__(self):
                self.n, self.mx = {}, {}

            def inc(self, name, v=1):
                self.n[name] = self.n.get(name, 0) + v

            def max(self, name, v):
                self.mx[name] = max(self.mx.get(name, 0), v)

        c = _C()
        out = {'n': c.n, 'mx': c.mx}
        if any(e.h_x**2 / e.h_t > 32 for e in elems):
            # the mesh left the range the property speaks about: stop here
            out['stop'] = True
        rng = stream(H(run['phases'][-1]['sched_seed'], k), 'subset')
        idx = list(range(len(elems)))
        rng.shuffle(idx)
        subset = [elems[i] for i in idx[:run.get('n_check', 3)]]
        try:
            check_orthogonality(residual, elems, subset, c, 'L2/iter', ctx)
        except Violation as v:
            out['violation'] = v.as_dict()
            out['stop'] = True
        except BaseException as ex:  # noqa
            import traceback
            tb = traceback.extract_tb(ex.__traceback__)
            out['violation'] = Violation(
                PROP, 'exception', 'residual/' + type(ex).__name__,
                dict(ctx, exception=repr(ex)[:300], where=[
                    '{}:{}'.format(x.filename.split('/')[-1], x.lineno)
                    for x in tb if repo.REPO in x.filename][-3:])).as_dict()
            out['stop'] = True
        return out

    try:
        for ph in run['phases']:
            cov.inc('ops')
            cov.inc('opkind.driver_run')
            code, events = driver.run_driver(
                driver.driver_args(spec), root, ph['workers'],
                ph['sched_seed'], run['max_iter'], crash=ph.get('crash'),
                observer=observer)
            for ev in events:
                if ev[0] == 'residual' and ev[3]:
                    p = ev[3]
                    for k, v in p['n'].items():
                        cov.inc(k, v)
                    for k, v in p['mx'].items():
                        cov.max(k, v)
                    if p.get('violation'):
                        v = p['violation']
                        raise Violation(v['property'], v['class'], v['site'],
                                        v['detail'], v['match'])
                    cov.inc('driver_iterations')
                elif ev[0] == 'exception':
                    raise Violation(
                        PROP, 'exception', 'driver/' + ev[2],
                        dict(ctx, exception=ev[3], where=ev[4], iteration=ev[1]))
                elif ev[0] == 'disk':
                    for k, v in ev[2].items():
                        if not k.startswith('distinct.'):
                            cov.inc(k, v)
                    cov.inc('sim_time_ms', int(ev[3] * 1000))
                elif ev[0] == 'solve':
                    log.append(ev)
            if code == 77:
                cov.inc('probe.driver_crash_restart')
            elif code != 0:
                raise Violation(PROP, 'exception', 'driver/exit',
                                dict(ctx, exit_code=code,
                                     events=[e[0] for e in events]))
    finally:
        shutil.rmtree(root, ignore_errors=True)
    cov.add('nontrivial_runs', H(run))
    cov.add('configs', (spec['problem'], spec['domain'], spec['pw_exact'],
                        spec['refinement']))
    cov.inc('path.driver')


def gen_run(seed, params):
    seams.install()
    rng = stream(seed, 'workload')
    if rng.random() < params.get('p_l2', 0.25):
        return gen_l2(rng, params)
    return gen_l1(rng, params)


def execute(run, cov, log):
    if run['layer'] == 'L2':
        execute_l2(run, cov, log)
    else:
        execute_l1(run, cov, log)


def shrink_run(run):
    from .core import ddmin_lists
    if run['layer'] == 'L2':
        if len(run['phases']) > 1:
            yield dict(run, phases=run['phases'][-1:])
        if run['max_iter'] > 1:
            yield dict(run, max_iter=run['max_iter'] - 1)
        for key, val in (('refinement', 'uniform'), ('h_h2', False)):
            if run['spec'].get(key) != val:
                yield dict(run, spec=dict(run['spec'], **{key: val}))
        return
    for cand in ddmin_lists(run['ops']):
        if any(o['op'] == 'solve' for o in cand):
            yield dict(run, ops=cand)
    for cand in ddmin_lists(run['history']):
        yield dict(run, history=cand)
    for i, op in enumerate(run['ops']):
        if 'faults' in op:
            o = dict(op)
            del o['faults']
            yield dict(run, ops=run['ops'][:i] + [o] + run['ops'][i + 1:])
        if op.get('use_mp'):
            yield dict(run, ops=run['ops'][:i] + [dict(op, use_mp=False)] +
                       run['ops'][i + 1:])

"""C17, system level (L2): the real example.py is run fault-free to get the
reference trace [(iteration, shape, md5 mat, md5 rhs, md5 Phi)] captured at
numpy.linalg.solve, then re-run in a second directory through crashes (torn
SL_/M0_ writes), restarts, other worker counts and schedules; the trace of
the run that finally completes must be the reference trace, bit for bit."""
import os
import shutil

from . import driver, seams, simdisk
from .core import H, Violation, scratch_root, stream

PROP = 'C17'
_counter = [0]
PROBLEMS = {
    'Smooth': ['UnitSquare', 'PiSquare'],
    'Singular': ['UnitSquare', 'LShape'],
    'Dirichlet': ['UnitSquare', 'PiSquare', 'LShape', 'Circle'],
    'MildSingular': ['UnitSquare', 'PiSquare', 'LShape', 'Circle'],
}


def gen(rng, params):
    problem = rng.choice(['Dirichlet', 'MildSingular', 'Dirichlet', 'Singular',
                          'Smooth'])
    domain = rng.choice(PROBLEMS[problem])
    with_u0 = problem in ('Smooth', 'Singular')
    spec = {
        'problem': problem,
        'domain': domain,
        'pw_exact': rng.random() < 0.5,
        'refinement': rng.choice(['uniform', 'isotropic', 'anisotropic']),
        'theta': round(rng.uniform(0.4, 0.95), 3),
        'quad': '1111',
        'h_h2': (not with_u0) and rng.random() < 0.15,
    }
    k_iter = 2 if with_u0 else rng.choice([2, 2, 3])
    phases = []
    for _ in range(rng.choice([1, 1, 2])):
        phases.append({
            'workers': rng.randint(1, 16),
            'sched_seed': rng.randrange(1 << 30),
            'crash': ({
                'at_event': rng.randint(1, 7),
                'torn': {
                    'cls': rng.choice(list(simdisk.TORN_CLASSES) +
                                      ['none', 'complete']),
                    'u': rng.random()
                }
            } if rng.random() < 0.6 else {
                # die between two I/O events
                'at_step': rng.choice([1, 3, 6, 10, 15, 25, 40, 80, 160])
            })
        })
    if rng.random() < params.get('p_pollute', 0.45):
        # another invocation with other flags shares the working directory
        # first (as a user does): same domain with the other value of the
        # straight-panel switch, or another problem on the same domain
        other = dict(spec)
        if rng.random() < 0.5:
            other['pw_exact'] = not spec['pw_exact']
        else:
            alts = [p for p in PROBLEMS
                    if domain in PROBLEMS[p] and p != problem]
            other['problem'] = rng.choice(alts)
            other['h_h2'] = False
        phases.insert(rng.randrange(len(phases) + 1), {
            'workers': rng.randint(1, 16),
            'sched_seed': rng.randrange(1 << 30),
            'spec': other, 'max_iter': rng.choice([1, 2])})
    final = {'workers': rng.randint(1, 16),
             'sched_seed': rng.randrange(1 << 30)}
    if rng.random() < 0.3:
        final['save_fault'] = {'kind': 'torn', 'cls': rng.choice(
            list(simdisk.TORN_CLASSES)), 'u': rng.random()}
    phases.append(final)
    return {'layer': 'L2', 'spec': spec, 'max_iter': k_iter,
            'ref': {'workers': rng.randint(1, 16),
                    'sched_seed': rng.randrange(1 << 30)},
            'phases': phases}


def execute(run, cov, log):
    seams.install()
    _counter[0] += 1
    root = os.path.join(scratch_root(),
                        'c17d-{}-{}'.format(os.getpid(), _counter[0]))
    shutil.rmtree(root, ignore_errors=True)
    spec = run['spec']
    ctx = {k: spec[k] for k in ('problem', 'domain', 'pw_exact',
                                'refinement', 'theta')}
    argv = driver.driver_args(spec)

    def absorb(events):
        for ev in events:
            if ev[0] == 'disk':
                for k, v in ev[2].items():
                    if not k.startswith('distinct.'):
                        cov.inc(k, v)
                cov.inc('sim_time_ms', int(ev[3] * 1000))
            elif ev[0] == 'exception':
                raise Violation(PROP, 'exception', 'driver/' + ev[2],
                                dict(ctx, exception=ev[3], where=ev[4]))

    try:
        a = os.path.join(root, 'ref')
        b = os.path.join(root, 'faulty')
        os.makedirs(a)
        os.makedirs(b)
        cov.inc('ops')
        cov.inc('opkind.driver_reference_run')
        code, events = driver.run_driver(argv, a, run['ref']['workers'],
                                         run['ref']['sched_seed'],
                                         run['max_iter'])
        absorb(events)
        if code != 0:
            raise Violation(PROP, 'exception', 'driver/exit',
                            dict(ctx, exit_code=code, phase='reference'))
        ref = [e for e in events if e[0] == 'solve']
        last = None
        for i, ph in enumerate(run['phases']):
            cov.inc('ops')
            cov.inc('opkind.driver_faulty_run')
            if 'spec' in ph:
                # foreign invocation sharing the directory; its own trace is
                # not judged here
                cov.inc('probe.foreign_invocation_shares_directory')
                code, events = driver.run_driver(
                    driver.driver_args(ph['spec']), b, ph['workers'],
                    ph['sched_seed'], ph['max_iter'])
                absorb(events)
                if code != 0:
                    raise Violation(PROP, 'exception', 'driver/exit',
                                    dict(ctx, exit_code=code, phase=i,
                                         foreign=ph['spec']))
                continue
            code, events = driver.run_driver(
                argv, b, ph['workers'], ph['sched_seed'], run['max_iter'],
                crash=ph.get('crash'), save_fault=ph.get('save_fault'))
            absorb(events)
            last = (code, [e for e in events if e[0] == 'solve'])
            if code == 77:
                cov.inc('probe.driver_crash_restart')
                continue
            if code != 0:
                raise Violation(PROP, 'exception', 'driver/exit',
                                dict(ctx, exit_code=code, phase=i))
            # a phase that ran to completion: its trace must be the
            # reference trace
            got = last[1]
            if got != ref:
                k = next((j for j, (x, y) in enumerate(zip(got, ref))
                          if x != y), min(len(got), len(ref)))
                raise Violation(
                    PROP, 'trace-mismatch', 'driver/solve-trace',
                    dict(ctx, first_difference=k,
                         got=got[k] if k < len(got) else None,
                         want=ref[k] if k < len(ref) else None,
                         phase=i, workers=ph['workers']))
            cov.inc('driver_traces_compared')
            cov.inc('path.driver')
        log.append(('driver-trace', ref))
    finally:
        shutil.rmtree(root, ignore_errors=True)
    cov.add('nontrivial_runs', H(run))


def shrink(run):
    if len(run['phases']) > 1:
        yield dict(run, phases=run['phases'][-1:])
        yield dict(run, phases=run['phases'][1:])
    if run['max_iter'] > 1:
        yield dict(run, max_iter=run['max_iter'] - 1)
    for key, val in (('refinement', 'uniform'), ('h_h2', False)):
        if run['spec'].get(key) != val:
            yield dict(run, spec=dict(run['spec'], **{key: val}))
    for i, ph in enumerate(run['phases']):
        if 'save_fault' in ph:
            q = dict(ph)
            del q['save_fault']
            yield dict(run, phases=run['phases'][:i] + [q] +
                       run['phases'][i + 1:])

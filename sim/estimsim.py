"""L1 engine for the residual-based estimators (src/error_estimator.py):
pool / serial / per-element paths under SimPool, neighbour bookkeeping after
arbitrary histories, and the definitional value of every patch (RefNum)."""
import numpy as np

from . import meshsim, refnum, repo, seams, simclock, simdisk, simmp
from .core import H, SkipRun, Violation, stream

PROP = 'C09'
CLOSED = ('UnitSquare', 'PiSquare', 'LShape', 'Circle')


# ------------------------------------------------------------- residuals ---
def make_residual(spec):
    """Residual r(t, x_hat, gamma) of a parametric family; vectorised."""
    fam = spec['family']
    if fam == 'poly':
        c = np.array(spec['coef'])  # c[i, j] t^i x_hat^j

        def r(t, x_hat, gamma):
            t = np.asarray(t, dtype=float)
            x_hat = np.asarray(x_hat, dtype=float)
            out = np.zeros(np.broadcast(t, x_hat).shape)
            for i in range(c.shape[0]):
                for j in range(c.shape[1]):
                    if c[i, j]:
                        out = out + c[i, j] * t**i * x_hat**j
            return out

        return r
    f = make_embedded(spec)
    return lambda t, x_hat, gamma: f(
        np.asarray(t, dtype=float), gamma(np.asarray(x_hat, dtype=float)))


def make_embedded(spec):
    """f(t, X) for the families that depend on the embedded point only."""
    fam = spec['family']
    if fam == 'poly_t_embedded':
        # polynomial in t, trigonometric in the embedded coordinates
        ct = np.array(spec['coef_t'])
        a, b, p1, p2 = spec['trig']

        def f(t, x):
            pt = sum(ct[i] * t**i for i in range(len(ct)))
            return pt * np.cos(a * x[0] + p1) * np.sin(b * x[1] + p2)

        return f
    if fam == 'embedded':
        a, b, p1, p2, c = spec['trig']

        def f(t, x):
            return (np.cos(a * x[0] + p1) * np.sin(b * x[1] + p2) *
                    (1.0 + c * t) + 0.3 * np.exp(-t) * x[0])

        return f
    raise ValueError(fam)


RANGE = {'UnitSquare': 1.0, 'LShape': 2.0, 'Circle': 2.0, 'PiSquare': np.pi}


def gen_residual(rng, orders, curve):
    # exactness range per direction: t meets the L2 rule, the outer rule
    # and the time seminorm rule; x_hat meets the L2 rule, the outer rule
    # and the space seminorm rule (N_poly = (N_l2, N_outer, N_time, N_space));
    # with four equal orders both are (N - 1) // 2 as before
    d_t = (min(orders[0], orders[1], orders[2]) - 1) // 2
    d_x = (min(orders[0], orders[1], orders[3]) - 1) // 2
    d = d_t
    fam = rng.choice(['poly', 'poly', 'embedded', 'embedded',
                      'poly_t_embedded'])
    if fam == 'poly':
        dt, dx = rng.randint(0, d_t), rng.randint(0, d_x)
        coef = [[round(rng.uniform(-1, 1), 3) for _ in range(dx + 1)]
                for _ in range(dt + 1)]
        coef[dt][dx] = coef[dt][dx] or 0.5
        return {'family': 'poly', 'coef': coef, 'deg': [dt, dx]}
    # moderate frequencies: at most ~2 rad of phase across the whole domain,
    # so that "smooth" means what the property's measured 7e-7 at order 17
    # means (a residual oscillating several times inside one coarse element
    # is legitimately not resolved to 1e-4 by a 9-point rule)
    trig = [
        rng.choice([0.5, 1.0, 2.0]) / RANGE[curve],
        rng.choice([0.5, 1.0, 2.0]) / RANGE[curve],
        round(rng.uniform(0, 3), 3),
        round(rng.uniform(0.3, 3), 3)
    ]
    if fam == 'poly_t_embedded':
        dt = rng.randint(0, d)
        ct = [round(rng.uniform(-1, 1), 3) for _ in range(dt + 1)]
        ct[dt] = ct[dt] or 0.7
        return {'family': fam, 'coef_t': ct, 'trig': trig, 'deg': [dt, None]}
    return {'family': 'embedded', 'trig': trig + [round(rng.uniform(0, 2), 3)]}


# ---------------------------------------------------------------- engine ---
class EstimCase:
    def __init__(self, run, cov, log):
        seams.install()
        self.run = run
        self.cov = cov
        self.log = log
        EE = repo.mod('src.error_estimator')
        config = {'kind': 'param', 'curve': run['curve'],
                  'space': run.get('space'), 'time': run.get('time')}
        self.case = meshsim.MeshCase(config)
        self.mesh = self.case.mesh
        self.gamma = self.mesh.gamma_space
        self.L = float(self.gamma.gamma_length)
        self.replay(run['history'])
        self.orders = tuple(run['orders'])
        self.est = EE.ErrorEstimator(self.mesh, N_poly=self.orders)
        self.residual = make_residual(run['residual'])
        self.spec = run['residual']
        self._serial = {}
        self._lists = {}
        simclock.reset()

    def replay(self, ops):
        class _C:
            def inc(self, *a):
                pass

            def add(self, *a):
                pass

            def max(self, *a):
                pass

        for op in ops:
            meshsim.apply_op(self.case, op, _C(), {
                'compare': False,
                'model': True
            }, [])
        self._serial = {}
        self._lists = {}

    def viol(self, cls, site, detail, match=None):
        d = dict(detail)
        d.setdefault('curve', self.run['curve'])
        d.setdefault('orders', self.orders)
        d.setdefault('family', self.spec['family'])
        raise Violation(PROP, cls, site, d, match or {})

    def elems(self, op):
        # 'share': the client keeps one list object per ordering and passes
        # it again in later calls (until the mesh changes), as a driver that
        # holds on to its element list does
        key = (op.get('order'), op.get('order_seed')
               if op.get('order') == 'perm' else None)
        if op.get('share') and key in self._lists:
            self.cov.inc('probe.same_list_object_again')
            return self._lists[key]
        leaves = sorted(self.mesh.leaf_elements,
                        key=lambda e: (e.time_interval, e.space_interval))
        if op.get('order') == 'impl':
            leaves = list(self.mesh.leaf_elements)
        elif op.get('order') == 'perm':
            rng = stream(op['order_seed'], 'perm')
            rng.shuffle(leaves)
        if op.get('recycle') and self._lists.get('last') is not None:
            # the client's one list object, overwritten in place
            obj = self._lists['last']
            obj[:] = leaves
            leaves = obj
            self.cov.inc('probe.list_object_recycled_with_other_content')
        if op.get('share'):
            self._lists[key] = leaves
        self._lists['last'] = leaves
        return leaves

    def call(self, site, fn):
        try:
            return fn()
        except BaseException as ex:  # noqa
            from .core import HarnessTimeout
            if isinstance(ex, (HarnessTimeout, KeyboardInterrupt, SystemExit,
                               Violation)):
                raise
            import traceback
            tb = traceback.extract_tb(ex.__traceback__)
            self.viol(
                'exception', site + '/' + type(ex).__name__, {
                    'exception': repr(ex)[:300],
                    'where': [
                        '{}:{}'.format(x.filename.split('/')[-1], x.lineno)
                        for x in tb if '/src/' in x.filename
                    ][-3:]
                })
        finally:
            simmp.collect()

    # ------------------------------------------------------------- ops ----
    def step(self, op):
        kind = op['op']
        self.cov.inc('ops')
        self.cov.inc('opkind.' + kind)
        self._n_done = self.run['ops'].index(op) if op in self.run[
            'ops'] else 0
        if op.get('residual'):
            # the same estimator object is asked about another function
            self.residual = make_residual(op['residual'])
            self.spec = op['residual']
            self._serial = {}
            self.cov.inc('probe.residual_switched')
        if kind == 'refine':
            self.replay(op['ops'])
            self.log.append(('refine', len(self.mesh.leaf_elements)))
        elif kind in ('sobolev', 'wl2'):
            self.op_assembled(op)
        elif kind == 'direct':
            self.op_direct(op)
        elif kind == 'symmetry':
            self.op_symmetry(op)
        else:
            raise ValueError(kind)

    def op_assembled(self, op):
        kind = op['op']
        elems = self.elems(op)
        fn = (self.est.estimate_sobolev
              if kind == 'sobolev' else self.est.estimate_weighted_l2)
        simdisk.arm(stats=self.cov)
        simmp.arm(op.get('workers', 4), H(op.get('sched_seed', 0)),
                  stats=self.cov, clock=simclock.CLOCK)
        pooled = None
        if op.get('use_mp') and op.get('pool_first'):
            pooled = self.call(kind + '/pool',
                               lambda: fn(elems, self.residual, use_mp=True))
        serial = self.call(kind + '/serial',
                           lambda: fn(elems, self.residual, use_mp=False))
        self.cov.inc('path.serial')
        if not isinstance(serial, np.ndarray) or serial.shape != (len(elems),
                                                                   2):
            self.viol('wrong-shape', kind + '/serial',
                      {'shape': getattr(serial, 'shape', None)})
        if op.get('use_mp'):
            if pooled is None:
                pooled = self.call(
                    kind + '/pool',
                    lambda: fn(elems, self.residual, use_mp=True))
            self.cov.inc('path.pool')
            if not isinstance(pooled, np.ndarray) or (
                    pooled.shape != serial.shape
                    or not np.array_equal(pooled, serial)):
                bad = np.argwhere(np.asarray(pooled) != serial) if getattr(
                    pooled, 'shape', None) == serial.shape else []
                self.viol(
                    'pool-differs', kind + '/pool', {
                        'workers': op.get('workers'),
                        'n_bad': len(bad),
                        'schedule': simmp.STATE['log'][:2]
                    })
        # assembled row == direct full evaluation of that element
        rng = stream(op.get('sched_seed', 0), 'rows')
        rows = list(range(len(elems)))
        rng.shuffle(rows)
        for i in rows[:op.get('n_rows', 6)]:
            e = elems[i]
            if kind == 'sobolev':
                dt = self.call('sobolev_time',
                               lambda: self.est.sobolev_time(e, self.residual))
                ds = self.call(
                    'sobolev_space',
                    lambda: self.est.sobolev_space(e, self.residual))
                direct = (dt[0], ds[0])
            else:
                direct = self.call(
                    'weighted_l2',
                    lambda: self.est.weighted_l2(e, self.residual))
            for k in range(2):
                a, b = float(serial[i, k]), float(direct[k])
                if abs(a - b) > 1e-12 * max(abs(a), abs(b)) + 1e-300:
                    self.viol(
                        'row-vs-direct', kind + '/' + ('time', 'space')[k], {
                            'elem': repr(e),
                            'assembled': a,
                            'direct': b,
                            'ratio': a / b if b else None
                        })
            self.cov.inc('rows_vs_direct')
        self.log.append((kind, len(elems), simmp.STATE['log'],
                         float(serial.sum())))

    # ------------------------------------------------ definitional values --
    def geo_neighbours(self, e, axis):
        """Leaves sharing a piece of positive length of the two edges of e
        that are orthogonal to `axis` (axis 1: neighbours in space, through
        the seam too; axis 0: neighbours in time)."""
        out = []
        t0, t1 = e.time_interval
        x0, x1 = e.space_interval
        for c in self.mesh.leaf_elements:
            if c is e and axis == 0:
                continue
            c0, c1 = c.time_interval
            y0, y1 = c.space_interval
            if axis == 1:
                touch = (y0 == x1 or y1 == x0 or (x1 == self.L and y0 == 0)
                         or (x0 == 0 and y1 == self.L))
                if touch and c0 < t1 and t0 < c1 and c is not e:
                    out.append(c)
            else:
                if (c0 == t1 or c1 == t0) and y0 < x1 and x0 < y1:
                    out.append(c)
        return out

    def piece_r(self, t, gam):
        return lambda xh: self.residual(np.full(np.shape(xh), t), xh, gam)

    def ref_space_patch(self, e, nbr, n):
        """int over common time of |r(t,.)|^2_{H^1/2(K u K')}; None if the
        family is not defined on this patch (non-periodic data across the
        seam)."""
        t_a = max(e.time_interval[0], nbr.time_interval[0])
        t_b = min(e.time_interval[1], nbr.time_interval[1])
        fam = self.spec['family']
        if nbr is e:
            kind, left, right = 'own', e, None
        else:
            if e.space_interval[1] == nbr.space_interval[0]:
                left, right, seam = e, nbr, False
            elif nbr.space_interval[1] == e.space_interval[0]:
                left, right, seam = nbr, e, False
            elif e.space_interval[1] == self.L and nbr.space_interval[0] == 0:
                left, right, seam = e, nbr, True
            elif nbr.space_interval[1] == self.L and e.space_interval[0] == 0:
                left, right, seam = nbr, e, True
            else:
                return None, 'not-adjacent'
            if seam and fam == 'poly':
                return None, 'seam-nonperiodic'
            if left.gamma_space is right.gamma_space:
                kind = 'seam-same-piece' if seam else 'same-piece'
            else:
                kind = 'seam-corner' if seam else 'corner'
        L = self.L

        def S(t):
            if kind == 'own':
                g = e.gamma_space
                return refnum.h12_same(self.piece_r(t, g), g,
                                       *e.space_interval, n)
            g1, g2 = left.gamma_space, right.gamma_space
            if kind == 'same-piece':
                return refnum.h12_same(self.piece_r(t, g1), g1,
                                       left.space_interval[0],
                                       right.space_interval[1], n)
            if kind == 'seam-same-piece':
                # smooth closed curve: continue the parametrisation
                return refnum.h12_same(self.piece_r(t, g1), g1,
                                       left.space_interval[0],
                                       right.space_interval[1] + L, n)
            r1, r2 = self.piece_r(t, g1), self.piece_r(t, g2)
            a1, b1 = left.space_interval
            a2, b2 = right.space_interval
            return (refnum.h12_same(r1, g1, a1, b1, n) +
                    refnum.h12_same(r2, g2, a2, b2, n) +
                    2.0 * refnum.h12_cross(r1, g1, a1, b1, r2, g2, a2, b2, n))

        return refnum.outer(S, t_a, t_b, 10), kind

    def ref_time_patch(self, e, nbr, n):
        x_a = max(e.space_interval[0], nbr.space_interval[0])
        x_b = min(e.space_interval[1], nbr.space_interval[1])
        t_a = min(e.time_interval[0], nbr.time_interval[0])
        t_b = max(e.time_interval[1], nbr.time_interval[1])
        g = e.gamma_space

        def S(x):
            return refnum.h14(
                lambda t: self.residual(t, np.full(np.shape(t), x), g), t_a,
                t_b, n)

        return refnum.outer(S, x_a, x_b, 10), ('own' if nbr is e else 'pair')

    def tolerance(self, which, kind):
        """Relative tolerance the property states for this patch, or None
        when it states none."""
        fam = self.spec['family']
        N = min(self.orders)
        straight = self.run['curve'] != 'Circle'
        deg = self.spec.get('deg')
        if which == 'space':
            if fam == 'poly' and straight and kind in ('own', 'same-piece'):
                return 1e-8
        elif which == 'time':
            if fam in ('poly', 'poly_t_embedded'):
                # polynomial in t; the outer Gauss rule in x must be exact
                # too (polynomial in x_hat) or accurate (embedded: order 17)
                if fam == 'poly' or N >= 17:
                    return 1e-8 if fam == 'poly' else 1e-4
        elif which == 'l2':
            if fam == 'poly':
                return 1e-8
        if N >= 17:
            return 1e-4
        return None

    def judge(self, site, which, kind, code, fn, e, nbr, match=None):
        tol = self.tolerance(which, kind)
        if tol is None:
            self.cov.inc('patches_unjudged')
            return
        # difference quotients on tiny patches lose digits to cancellation
        # (in the code under test and in the reference alike): relative
        # rounding of order eps / (h * smallest node gap); the tolerance is
        # never tighter than that
        if which == 'space':
            h = min(e.h_x, nbr.h_x) / max(1.0, self.L / 4)
            tol = tol + 2e-12 / h
        elif which == 'time':
            h = min(e.h_t, nbr.h_t)
            tol = tol + 2e-12 / h
        ref = err = None
        for (lo, hi) in ((10, 16), (16, 24), (24, 36)):
            a, _ = fn(lo)
            b, _ = fn(hi)
            ref, err = b, abs(a - b)
            if err <= 0.05 * tol * abs(b) + 1e-15 * min(1.0, e.h_t * e.h_x):
                break
        else:
            self.cov.inc('unresolved')
            return
        self.cov.inc('patches_judged.' + which + '.' + kind)
        floor = 1e-13 * min(1.0, e.h_t * e.h_x)
        if match is not None and which == 'space':
            # what a known-findings entry may key on: the union patch spans
            # at least ~half of the circle (coarsest meshes), and the error
            # is still of the size of the quadrature error there
            arc = e.h_x + (nbr.h_x if nbr is not e else 0.0)
            match = dict(match,
                         coarse_union_patch=bool(
                             self.run['curve'] == 'Circle' and arc >= 3.0),
                         marginal=bool(abs(code - ref) < 1e-3 * abs(ref)))
        if abs(code - ref) > tol * abs(ref) + floor:
            self.viol(
                'patch-value', site + '/' + kind, {
                    'elem': repr(e),
                    'nbr': repr(nbr),
                    'code': float(code),
                    'reference': float(ref),
                    'rel_err': float(abs(code - ref) / max(abs(ref), 1e-300)),
                    'tolerance': tol,
                    'reference_self_error': float(err)
                }, match)
        self.cov.max('max_rel_err_' + which,
                     float(abs(code - ref) / max(abs(ref), 1e-300)))

    def op_symmetry(self, op):
        """A quarter turn of the square / circle applied to curve, history
        and residual permutes the indicators (pairs inside the
        parametrisation are carried across the seam and vice versa)."""
        curve = self.run['curve']
        fam = self.spec['family']
        if curve == 'LShape' or fam == 'poly' or self.run.get('space'):
            self.cov.inc('skipped.op_symmetry_not_applicable')
            return
        from .refmesh import S
        k = 1 + op.get('k', 0) % 3
        ang = 0.5 * np.pi * k
        R = np.array([[np.cos(ang), -np.sin(ang)], [np.sin(ang),
                                                    np.cos(ang)]])
        R = np.round(R)  # exact quarter turns
        if curve == 'Circle':
            c = np.zeros((2, 1))
            dshift = k * S // 4
            n_cols = 1
        else:
            side = 1.0 if curve == 'UnitSquare' else np.pi
            c = np.array([[side / 2], [side / 2]])
            dshift = k * S
            n_cols = 4
        pshift = k * self.L / 4
        hist2 = []
        for o in self.run['history'] + [
                q for p in self.run['ops'][:self._n_done] if p['op'] == 'refine'
                for q in p['ops']
        ]:
            o2 = dict(o)
            if 'pt' in o2:
                o2['pt'] = [o['pt'][0], (o['pt'][1] + dshift) % (n_cols * S)]
            hist2.append(o2)
        EE = repo.mod('src.error_estimator')
        case2 = meshsim.MeshCase({'kind': 'param', 'curve': curve,
                                  'space': None, 'time': self.run.get('time')})
        saved, self.case = self.case, case2
        try:
            self.replay(hist2)
        finally:
            self.case = saved
        est2 = EE.ErrorEstimator(case2.mesh, N_poly=self.orders)
        f = make_embedded(self.spec)
        Rinv = R.T
        r2 = lambda t, xh, g: f(np.asarray(t, dtype=float), Rinv @ (g(
            np.asarray(xh, dtype=float)) - c) + c)
        e1 = list(self.mesh.leaf_elements)
        e2 = list(case2.mesh.leaf_elements)
        if len(e1) != len(e2):
            self.cov.inc('skipped.op_symmetry_history_not_invariant')
            return
        simdisk.arm(stats=self.cov)
        simmp.arm(4, 1, stats=self.cov, clock=simclock.CLOCK)
        A = (self.call('sobolev/serial', lambda: self.est.estimate_sobolev(
            e1, self.residual)), self.call(
                'wl2/serial',
                lambda: self.est.estimate_weighted_l2(e1, self.residual)))
        B = (self.call('sobolev/serial',
                       lambda: est2.estimate_sobolev(e2, r2)),
             self.call('wl2/serial',
                       lambda: est2.estimate_weighted_l2(e2, r2)))
        L = self.L
        for i, a in enumerate(e1):
            xa = (a.space_interval[0] + pshift) % L
            j = [
                m for m, b in enumerate(e2)
                if b.time_interval == a.time_interval and min(
                    abs(b.space_interval[0] - xa),
                    L - abs(b.space_interval[0] - xa)) < 1e-9
                and abs(b.h_x - a.h_x) < 1e-9
            ]
            if len(j) != 1:
                self.cov.inc('skipped.op_symmetry_history_not_invariant')
                return
            for name, (P, Q) in (('sobolev', (A[0], B[0])), ('wl2', (A[1],
                                                                     B[1]))):
                for col in range(2):
                    u, v = float(P[i, col]), float(Q[j[0], col])
                    if abs(u - v) > 1e-7 * max(abs(u), abs(v)) + 1e-14:
                        self.viol(
                            'symmetry', name + '/' + ('time', 'space')[col], {
                                'elem': repr(a),
                                'image': repr(e2[j[0]]),
                                'value': u,
                                'image_value': v,
                                'quarter_turns': k
                            })
        self.cov.inc('probe.symmetry_compared')
        self.log.append(('symmetry', k, len(e1)))

    def op_direct(self, op):
        elems = sorted(self.mesh.leaf_elements,
                       key=lambda e: (e.time_interval, e.space_interval))
        by_idx = {e.glob_idx: e for e in self.mesh.leaf_elements}
        idx = []
        if op.get('smallest'):
            order = sorted(range(len(elems)),
                           key=lambda q: (elems[q].h_x * elems[q].h_t, q))
            idx = order[:op['smallest']]
        for i in op['elems']:
            if i % len(elems) not in idx:
                idx.append(i % len(elems))
        for i in idx:
            e = elems[i]
            # ---- space indicator: neighbours in space
            val, ips = self.call(
                'sobolev_space',
                lambda: self.est.sobolev_space(e, self.residual))
            want = {id(e)} | {id(c) for c in self.geo_neighbours(e, 1)}
            got_ids = [g for g, _ in ips]
            if any(g not in by_idx for g in got_ids) or {
                    id(by_idx[g])
                    for g in got_ids
            } != want or len(got_ids) != len(want):
                self.viol(
                    'patch-neighbours', 'sobolev_space', {
                        'elem': repr(e),
                        'reported': [repr(by_idx.get(g)) for g in got_ids],
                        'geometric': [
                            repr(c) for c in self.geo_neighbours(e, 1)
                        ]
                    })
            if len(got_ids) > 5:
                self.viol('patch-neighbours', 'sobolev_space/count',
                          {'n': len(got_ids)})
            if abs(val - sum(v for _, v in ips)) > 1e-12 * abs(val):
                self.viol('patch-sum', 'sobolev_space', {'elem': repr(e)})
            for g, v in ips:
                nbr = by_idx[g]
                if v < 0:
                    self.viol('negative', 'sobolev_space', {'elem': repr(e)})
                fn = lambda n, nbr=nbr: self.ref_space_patch(e, nbr, n)
                r0, kind = fn(8)
                if r0 is None:
                    self.cov.inc('skipped.patch_' + kind)
                    continue
                if kind.startswith('seam'):
                    self.cov.inc('probe.seam_patch_judged_or_seen')
                self.judge('sobolev_space', 'space', kind, v, fn, e, nbr,
                           {'curve': self.run['curve'], 'patch': kind})
            # ---- time indicator: neighbours in time
            val, ips = self.call(
                'sobolev_time',
                lambda: self.est.sobolev_time(e, self.residual))
            want = {id(e)} | {id(c) for c in self.geo_neighbours(e, 0)}
            got_ids = [g for g, _ in ips]
            if any(g not in by_idx for g in got_ids) or {
                    id(by_idx[g])
                    for g in got_ids
            } != want or len(got_ids) != len(want):
                self.viol(
                    'patch-neighbours', 'sobolev_time', {
                        'elem': repr(e),
                        'reported': [repr(by_idx.get(g)) for g in got_ids],
                        'geometric': [
                            repr(c) for c in self.geo_neighbours(e, 0)
                        ]
                    })
            for g, v in ips:
                nbr = by_idx[g]
                fn = lambda n, nbr=nbr: self.ref_time_patch(e, nbr, n)
                self.judge('sobolev_time', 'time', fn(8)[1], v, fn, e, nbr)
            # ---- weighted L2
            w = self.call('weighted_l2',
                          lambda: self.est.weighted_l2(e, self.residual))
            g = e.gamma_space
            f = lambda t, x: self.residual(t, x, g)
            for k, scale in ((0, e.h_t**-0.5), (1, 1.0 / e.h_x)):
                fn = lambda n, scale=scale: (scale * refnum.l2sq(
                    f, *e.time_interval, *e.space_interval, n), 'elem')
                self.judge('weighted_l2/' + ('time', 'space')[k], 'l2',
                           'elem', w[k], fn, e, e)
            # ---- shortcut consistency: nbrs_symmetry only drops pairs
            vs, ips_s = self.call(
                'sobolev_space', lambda: self.est.sobolev_space(
                    e, self.residual, nbrs_symmetry=True))
            full = dict(self.est.sobolev_space(e, self.residual)[1])
            for gidx, v in ips_s:
                if gidx < e.glob_idx or full.get(gidx) != v:
                    self.viol('shortcut', 'sobolev_space/nbrs_symmetry',
                              {'elem': repr(e)})
            self.cov.inc('elements_direct')
        self.log.append(('direct', idx))


def execute(run, cov, log):
    try:
        c = EstimCase(run, cov, log)
        for op in run['ops']:
            c.step(op)
    except meshsim.Finding as f:
        raise SkipRun('foreign-mesh-' + f.kind)
    finally:
        simmp.reap_all()
        simdisk.disarm()
        cov.inc('sim_time_ms', int(simclock.CLOCK.elapsed() * 1000))
    if run['ops']:
        cov.add('nontrivial_runs', H(run))
    cov.add('configs', (run['curve'], tuple(run['orders']),
                        run['residual']['family']))


# ------------------------------------------------------------ generation ---
def gen_run(seed, params):
    from .sessions import gen_history
    seams.install()
    rng = stream(seed, 'workload')
    curve = rng.choice(params.get('curves', CLOSED))
    time = None
    if rng.random() < params.get('p_time_grid', 0.12):
        time = rng.choice([[0.0, 0.25, 1.0], [0.0, 0.5, 0.75, 1.5],
                           [0.0, 0.3, 1.0]])
    graded = rng.random() < params.get('p_graded', 0.12)
    space = None
    if curve == 'Circle' and rng.random() < 0.12:
        # three elements around the circle: the coarsest admissible mesh
        space = [0.0, 2 * np.pi / 3, 4 * np.pi / 3, 2 * np.pi]
        graded = False
    hist, n = gen_history(rng, curve, rng.choice(params.get(
        'sizes', [4, 8, 12, 16, 24])), graded=graded and rng.choice(
            [True, 'deep']), time=time, space=space)
    style = rng.random()
    odd = [1, 3, 5, 7, 9, 11, 13, 15, 17, 19]
    if style < 0.45:
        N = rng.choice([17, 19])
        orders = [N, N, N, N]
    elif style < 0.8:
        N = rng.choice(odd)
        orders = [N, N, N, N]
    else:
        orders = [rng.choice(odd) for _ in range(4)]
    residual = gen_residual(rng, orders, curve)
    ops = []
    n_ops = rng.randint(1, params.get('max_ops', 4))
    for k in range(n_ops):
        r = rng.random()
        if r < 0.35:
            ops.append({
                'op': rng.choice(['sobolev', 'sobolev', 'wl2']),
                'use_mp': rng.random() < 0.8,
                'workers': rng.randint(1, 16),
                'sched_seed': rng.randrange(1 << 30),
                'order': rng.choice(['impl', 'canon', 'perm']),
                'order_seed': rng.randrange(1 << 30),
                'n_rows': 4
            })
        elif r < 0.35 + params.get('p_symmetry', 0.1):
            ops.append({'op': 'symmetry', 'k': rng.randrange(3)})
        elif r < 0.9:
            ops.append({
                'op': 'direct',
                'elems': [rng.randrange(1 << 16)
                          for _ in range(params.get('n_direct', 3))]
            })
            if graded:
                # look at the smallest elements of a graded mesh
                ops[-1]['smallest'] = rng.randint(1, 3)
        else:
            ops.append({
                'op': 'refine',
                'ops': [{
                    'op': 'bisect',
                    'pt': [rng.randrange(0, 1 << 48),
                           rng.randrange(0, 1 << 48)],
                    'axis': rng.choice([0, 1])
                }]
            })
    # call histories on one estimator object: the client's list object
    # passed again, another residual from some call on (own stream: the runs
    # without these features stay what they were)
    hrng = stream(seed, 'workload-hist')
    if hrng.random() < params.get('p_hist', 0.3):
        share = hrng.random() < 0.7
        extra = []
        for k in range(hrng.randint(1, 3)):
            extra.append({
                'op': hrng.choice(['sobolev', 'sobolev', 'wl2']),
                'use_mp': True,
                'workers': hrng.randint(1, 16),
                'sched_seed': hrng.randrange(1 << 30),
                'order': hrng.choice(['impl', 'canon']),
                'order_seed': 0,
                'n_rows': 2
            })
        ops = ops + extra
        first = True
        for op in ops:
            if op['op'] not in ('sobolev', 'wl2'):
                continue
            if share:
                op['share'] = True
                op['order'] = 'canon' if op['order'] == 'perm' else op['order']
            elif hrng.random() < 0.7:
                op['recycle'] = True
            if hrng.random() < 0.3:
                op['pool_first'] = True
            if not first and hrng.random() < 0.6:
                op['residual'] = gen_residual(hrng, orders, curve)
            first = False
    run = {'curve': curve, 'history': hist, 'orders': orders,
           'residual': residual, 'ops': ops}
    if time is not None:
        run['time'] = time
    if space is not None:
        run['space'] = space
    return run


def shrink_run(run):
    from .core import ddmin_lists
    for cand in ddmin_lists(run['ops']):
        if cand:
            yield dict(run, ops=cand)
    for cand in ddmin_lists(run['history']):
        yield dict(run, history=cand)
    for i, op in enumerate(run['ops']):
        if op['op'] == 'direct' and len(op['elems']) > 1:
            for j in range(len(op['elems'])):
                o = dict(op, elems=op['elems'][:j] + op['elems'][j + 1:])
                yield dict(run, ops=run['ops'][:i] + [o] + run['ops'][i + 1:])
        if op.get('use_mp') and op.get('workers', 1) > 2:
            o = dict(op, workers=2)
            yield dict(run, ops=run['ops'][:i] + [o] + run['ops'][i + 1:])

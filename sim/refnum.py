"""RefNum: independent reference quadrature (numpy Gauss-Legendre only, none
of the repo's tables) for the Slobodeckij patch values and L2 norms.

Every quantity is evaluated at two resolutions; `resolved()` tells whether
they agree well inside the tolerance the caller wants to judge with."""
import numpy as np

_gl = {}


def gl(n):
    """Gauss-Legendre nodes/weights on [0, 1]."""
    r = _gl.get(n)
    if r is None:
        x, w = np.polynomial.legendre.leggauss(n)
        r = (0.5 * (x + 1.0), 0.5 * w)
        _gl[n] = r
    return r


def tensor(n, m):
    x, wx = gl(n)
    y, wy = gl(m)
    X = np.repeat(x, len(y))
    Y = np.tile(y, len(x))
    return X, Y, np.kron(wx, wy)


def h12_same(r, gamma, a, b, n):
    """iint_{[a,b]^2} |r(x)-r(y)|^2 / |gamma(x)-gamma(y)|^2 dx dy for r and
    gamma analytic on [a, b] (removable singularity on the diagonal; node
    sets of different size never meet)."""
    X, Y, W = tensor(n, n + 1)
    h = b - a
    x = a + h * X
    y = a + h * Y
    d = gamma(x) - gamma(y)
    d2 = d[0]**2 + d[1]**2
    return h * h * np.dot(W, (r(x) - r(y))**2 / d2)


def h12_cross(r1, g1, a1, b1, r2, g2, a2, b2, n):
    """iint_{[a1,b1] x [a2,b2]} |r1(x)-r2(y)|^2/|g1(x)-g2(y)|^2 where the two
    pieces meet in the corner g1(b1) == g2(a2).  Duffy substitution from the
    corner: the integrand is bounded and homogeneous of degree 0 there."""
    S, Wd, W = tensor(n, n + 1)
    hu, hv = b1 - a1, b2 - a2
    total = 0.0
    # triangle 1: p = s, q = s*w ; triangle 2: p = s*w, q = s ; jacobian s
    for (p, q) in ((S, S * Wd), (S * Wd, S)):
        x = b1 - hu * p
        y = a2 + hv * q
        d = g1(x) - g2(y)
        d2 = d[0]**2 + d[1]**2
        total += np.dot(W * S, (r1(x) - r2(y))**2 / d2)
    return hu * hv * total


def h14(r, a, b, n):
    """iint_{[a,b]^2} |r(t)-r(s)|^2 / |t-s|^{3/2} dt ds.  Duffy from the
    diagonal (s = t(1-w)) and the substitutions t = y^2, w = z^2 make the
    integrand analytic."""
    Y, Z, W = tensor(n, n + 1)
    h = b - a
    total = 0.0
    # lower triangle s < t, and by symmetry the upper one via mirroring
    for mirror in (False, True):
        t = Y**2
        s = t * (1.0 - Z**2)
        if mirror:
            t, s = 1.0 - t, 1.0 - s
        dr = r(a + h * t) - r(a + h * s)
        total += np.dot(W, 4.0 * dr**2 / Z**2)
    return np.sqrt(h) * total


def l2sq(f, t0, t1, x0, x1, n):
    T, X, W = tensor(n, n)
    v = f(t0 + (t1 - t0) * T, x0 + (x1 - x0) * X)
    return (t1 - t0) * (x1 - x0) * np.dot(W, v**2)


def outer(fun, a, b, n):
    """int_a^b fun(s) ds with fun scalar-valued (called per node)."""
    x, w = gl(n)
    return (b - a) * sum(wi * fun(a + (b - a) * xi) for xi, wi in zip(x, w))


def two_res(fn, n_lo, n_hi):
    """Evaluates fn(n) at two resolutions; returns (value_hi, self_error)."""
    lo, hi = fn(n_lo), fn(n_hi)
    return hi, abs(hi - lo)

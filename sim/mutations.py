"""Sensitivity mutations (DESIGN.md section 7): each is applied to a scratch
copy of the repo only; each compiles and leaves the 43 pinned tests green
(spot-checked), and must make the named check report a VIOLATION."""

M = []


def mut(name, prop, *edits, runs=None):
    M.append({'name': name, 'prop': prop, 'edits': edits, 'runs': runs})


MESH = 'src/mesh.py'
SL = 'src/single_layer.py'
IP = 'src/initial_potential.py'
EE = 'src/error_estimator.py'
HE = 'src/hierarchical_error_estimator.py'
HH = 'src/h_h2_error_estimator.py'
IM = 'src/initial_mesh.py'

# ---- C02 / C10 ------------------------------------------------------------
mut('closure only for level difference >= 2', 'C02',
    (MESH, 'if nbr_elem.levels[ax] < elem.levels[ax]:',
     'if nbr_elem.levels[ax] < elem.levels[ax] - 1:'))
mut('always create the midpoint vertex', 'C02',
    (MESH, 'if not edge.glued and edge.nbr_edge and edge.nbr_edge.children:',
     'if False and edge.nbr_edge and edge.nbr_edge.children:'))
mut('forget leaf_elements.pop', 'C02',
    (MESH, '        self.leaf_elements.pop(elem)\n',
     '        if elem.levels != (2, 1): self.leaf_elements.pop(elem)\n'))
mut('glob_idx reused for second child', 'C02',
    (MESH, 'child2.glob_idx = self.N_elements + 1',
     'child2.glob_idx = self.N_elements + (1 if ax == 0 else 0)'))
mut('element counter shared by all meshes of the process (class attribute)', 'C02',
    (MESH, """        self.N_elements = len(roots)
""", """        self.N_elements = len(roots)
        Mesh._count = len(roots)
"""),
    (MESH, """        child1.glob_idx = self.N_elements
        child2.glob_idx = self.N_elements + 1
        self.N_elements += 2
""", """        child1.glob_idx = Mesh._count
        child2.glob_idx = Mesh._count + 1
        Mesh._count += 2
        self.N_elements += 2
"""))
mut('cross-link children 0<->0', 'C10',
    (MESH, '''                self.children[0].nbr_edge = self.nbr_edge.children[1]
                self.children[1].nbr_edge = self.nbr_edge.children[0]
                self.nbr_edge.children[0].nbr_edge = self.children[1]
                self.nbr_edge.children[1].nbr_edge = self.children[0]''',
     '''                self.children[0].nbr_edge = self.nbr_edge.children[0]
                self.children[1].nbr_edge = self.nbr_edge.children[1]
                self.nbr_edge.children[0].nbr_edge = self.children[0]
                self.nbr_edge.children[1].nbr_edge = self.children[1]'''))
mut('drop on_boundary inheritance', 'C10',
    (MESH, '            self.on_boundary = parent.on_boundary\n',
     '            self.on_boundary = False\n'))
mut('stale neighbour through parent edge', 'C10',
    (MESH, '''        if self.nbr_edge and self.nbr_edge.children:
            return [child.elem for child in self.nbr_edge.children]''',
     '''        if self.nbr_edge and self.nbr_edge.children:
            return [self.nbr_edge.children[0].elem]'''))
# ---- C06 ------------------------------------------------------------------
mut('bulk criterion theta instead of theta^2 (isotropic)', 'C06',
    (MESH, '''            cumsum += eta_sqr[i]
            if cumsum >= eta_tot_sqr * theta**2:''',
     '''            cumsum += eta_sqr[i]
            if cumsum >= eta_tot_sqr * theta:'''))
mut('anisotropic marking stops only when the bulk is strictly exceeded', 'C06',
    (MESH, """            cumsum += val
            if cumsum >= eta_tot_sqr * theta**2:""", """            cumsum += val
            if cumsum > eta_tot_sqr * theta**2:"""))
mut('space-marked elements not followed to their time children', 'C06',
    (MESH, '''            if elem.children:
                marked_space.extend(elem.children)
            else:
                marked_space.append(elem)''',
     '''            if not elem.children:
                marked_space.append(elem)'''))
mut('ascending instead of descending order (anisotropic)', 'C06',
    (MESH, 'errs.sort(reverse=True, key=lambda tup: tup[0])',
     'errs.sort(reverse=False, key=lambda tup: tup[0])'))
mut('isotropic marking refines space on one time child only', 'C06',
    (MESH, '            children_time.extend(self.refine_time(elem))',
     '            children_time.extend(self.refine_time(elem)[:1])'))
# ---- C19 ------------------------------------------------------------------
mut('grading window: space side uses K/2', 'C19',
    (MESH, '                elif elem.h_x**sigma >= K * elem.h_t:',
     '                elif elem.h_x**sigma >= 2 * K * elem.h_t:'))
mut('grading gives up after two sweeps', 'C19',
    (MESH, '        while marked_space or marked_time:',
     '        for _sweep in range(2):'))
# ---- C18 ------------------------------------------------------------------
mut('piece assignment: <= at the right break point', 'C18',
    (MESH, '''                if gamma_space.pw_start[i] <= elem.vertices[
                        0].x < gamma_space.pw_start[i + 1]:''',
     '''                if gamma_space.pw_start[i] < elem.vertices[
                        0].x <= gamma_space.pw_start[i + 1] or (
                            i == 0 and elem.vertices[0].x == 0):'''))
mut('three-elements guard counts roots again', 'C18',
    (MESH, 'if self.glue_space and len(initial_space_mesh) - 1 < 3:',
     'if self.glue_space and len(self.roots) < 3:'))
# ---- C16 ------------------------------------------------------------------
mut('skip the balance recursion', 'C16',
    (IM, '                    self.refine(self.nbrs[(pb, pa)])',
     '                    pass'))
mut('midpoint of the reversed edge not reused', 'C16',
    (IM, '        if (b, a) in self.__bisect_edge:',
     '        if False and (b, a) in self.__bisect_edge:'))
mut('targeting accepts a cell edge that only starts at the segment', 'C16',
    (IM, """                                   v0[n_axis, 0]) and isclose(
                                       v1[n_axis, 0], vb[n_axis, 0]):""",
     """                                   v0[n_axis, 0]) and (isclose(
                                       v1[n_axis, 0], vb[n_axis, 0]) or True):"""))
# ---- C17 ------------------------------------------------------------------
mut('imap -> imap_unordered', 'C17',
    (SL, 'mp.Pool(mp.cpu_count()).imap(', 'mp.Pool(mp.cpu_count()).imap_unordered('))
mut('pool created before the globals are published', 'C17',
    (SL, "            globals()['__elems_test'] = elems_test\n",
     "            pool = mp.Pool(mp.cpu_count())\n"
     "            globals()['__elems_test'] = elems_test\n"),
    (SL, '                    mp.Pool(mp.cpu_count()).imap(MP_SL_matrix_col',
     '                    pool.imap(MP_SL_matrix_col'))
mut('mat[:, j] -> mat[j, :]', 'C17', (SL, 'mat[:, j] = col', 'mat[j, :] = col'))
mut('trial list dropped from the cache key', 'C17',
    (SL, 'str(elems_trial)).encode()', 'str(len(elems_trial))).encode()'))
mut('curve dropped from the cache key', 'C17',
    (SL, 'md5 = hashlib.md5((str(self.mesh.gamma_space) + str(elems_test) +',
     'md5 = hashlib.md5((str(elems_test) +'),
    (SL, '''cache_fn = "{}/SL_{}_{}x{}_{}.npy".format(self.cache_dir,
                                                      self.mesh.gamma_space, N,''',
     '''cache_fn = "{}/SL_{}_{}x{}_{}.npy".format(self.cache_dir,
                                                      "c", N,'''))
mut('load guard narrowed to FileNotFoundError', 'C17',
    (SL, '''                return mat
            except:
                pass''', '''                return mat
            except FileNotFoundError:
                pass'''))
mut('M0 save guard narrowed to FileNotFoundError', 'C17',
    (IP, '''                print("Stored Initial Operator to {}".format(cache_fn))
            except:
                pass''', '''                print("Stored Initial Operator to {}".format(cache_fn))
            except FileNotFoundError:
                pass'''))
mut('math.fsum -> sum in linform', 'C17',
    (IP, 'return math.fsum([val for elem, val in ips]), ips',
     'return sum([val for elem, val in ips]), ips'))
mut('worker-side causality guard < instead of <=', 'C17',
    (SL, '''        if elem_test.time_interval[1] <= elem_trial.time_interval[0]:
            continue''', '''        if elem_test.time_interval[1] <= elem_trial.time_interval[1]:
            continue'''))
mut('M0 problem label dropped from the file name', 'C17',
    (IP, '''            cache_fn = "{}/M0_{}_{}_{}.npy".format(self.cache_dir,
                                                   self.problem, N, md5)''',
     '''            cache_fn = "{}/M0_{}_{}_{}.npy".format(self.cache_dir,
                                                   "p", N, str(elems)[:0] + md5[:0] + str(N))'''))
mut('matrix memoised on the operator per (list objects, lengths)', 'C17',
    (SL, '''    def bilform_matrix(self, elems_test=None, elems_trial=None, use_mp=False):
        """ Returns the dense matrix <V 1_trial, 1_test>. """
''', '''    def bilform_matrix(self, elems_test=None, elems_trial=None, use_mp=False):
        if elems_test is None or elems_trial is None:
            return self._bilform_matrix(elems_test, elems_trial, use_mp)
        key = (id(elems_test), id(elems_trial), len(elems_test), len(elems_trial))
        if getattr(self, '_memo', (None, ))[0] != key:
            self._memo = (key, self._bilform_matrix(elems_test, elems_trial, use_mp))
        return self._memo[1].copy()

    def _bilform_matrix(self, elems_test=None, elems_trial=None, use_mp=False):
        """ Returns the dense matrix <V 1_trial, 1_test>. """
'''))
# ---- C09 ------------------------------------------------------------------
mut('accumulation glob_idx <= (self pair counted twice)', 'C09',
    (EE, '''                if elem.glob_idx < elem_nbr:
                    sobolev[glob_2_loc[elem_nbr], 0] += val_nbr''',
     '''                if elem.glob_idx <= elem_nbr:
                    sobolev[glob_2_loc[elem_nbr], 0] += val_nbr'''))
mut('pool map -> imap_unordered (space)', 'C09',
    (EE, '''                    p.map(MP_estim_sobolev_space, range(N),
                          N // (cpu * 8) + 1))''',
     '''                    p.imap_unordered(MP_estim_sobolev_space, range(N),
                          N // (cpu * 8) + 1))'''))
mut('weighted L2 scaling swapped', 'C09',
    (EE, 'return sqrt(elem.h_t) * elem.h_x * res_l2, elem.h_t * res_l2',
     'return sqrt(elem.h_x) * elem.h_t * res_l2, elem.h_x * res_l2'))
mut('seam pair integrated over the complementary arc again', 'C09',
    (EE, '                    x_b += self.gamma_len', '                    pass'))
mut('time patch uses the element instead of the intersection', 'C09',
    (EE, 'x_a = max(space_nbr.space_interval[0], elem.space_interval[0])',
     'x_a = elem.space_interval[0]'))
mut('pool workers keep the first residual they were given', 'C09',
    (EE, """            globals()['__residual'] = residual
            globals()['__elems'] = elems
            globals()['__error_estimator'] = self
            cpu = mp.cpu_count()
            with mp.Pool(cpu) as p:""", """            globals().setdefault('__residual', residual)
            globals()['__elems'] = elems
            globals()['__error_estimator'] = self
            cpu = mp.cpu_count()
            with mp.Pool(cpu) as p:"""))
# ---- C20 ------------------------------------------------------------------
mut('two virtual children permuted', 'C20',
    (HE, '''                DummyElement(vertices=[v01, v1, v12, vi], gamma_space=gamma),
                DummyElement(vertices=[v30, vi, v23, v3], gamma_space=gamma),''',
     '''                DummyElement(vertices=[v30, vi, v23, v3], gamma_space=gamma),
                DummyElement(vertices=[v01, v1, v12, vi], gamma_space=gamma),'''))
mut('time and space sign patterns swapped', 'C20',
    (HE, '[[1, 1, -1, -1], [1, -1, 1, -1],', '[[1, -1, 1, -1], [1, 1, -1, -1],'))
mut('checkerboard fully counted on the time indicator', 'C20',
    (HE, 'estims.append((estim_loc[0] + 0.5 * estim_loc[2],',
     'estims.append((estim_loc[0] + 1.0 * estim_loc[2],'))
mut('Prolongate stops at the first ancestor', 'C20',
    (MESH, '''        while elem_coarse not in elem_coarse_2_idx:
            assert elem_coarse.parent
            elem_coarse = elem_coarse.parent''',
     '''        if elem_coarse not in elem_coarse_2_idx:
            assert elem_coarse.parent
            elem_coarse = elem_coarse.parent'''))
mut('h-h/2 prolongation by tile instead of repeat', 'C20',
    (HH, 'Phi_prolong = np.repeat(Phi, 4)', 'Phi_prolong = np.tile(Phi, 4)'))
mut('h-h/2 prolongation memoised per element list object', 'C20',
    (HH, 'Phi_prolong = np.repeat(Phi, 4)',
     """if getattr(self, '_key', None) != id(elems):
            self._key, self._prol = id(elems), np.repeat(Phi, 4)
        Phi_prolong = self._prol"""))
mut('hierarchical V Phi memoised per element list object', 'C20',
    (HE, 'VPhi = mat @ Phi',
     """if getattr(self, '_key', None) != id(elems):
            self._key, self._VPhi = id(elems), mat @ Phi
        VPhi = self._VPhi"""))
# ---- C03 ------------------------------------------------------------------
mut('right-hand side +M0', 'C03',
    ('example.py', 'rhs = -M0.linform_vector(elems=elems, use_mp=True)',
     'rhs = M0.linform_vector(elems=elems, use_mp=True)'), runs=400)
mut('inline assembly transposed', 'C03',
    (SL, '''                    mat[i, j] = self.bilform(elem_trial, elem_test)
            return mat''', '''                    mat[j, i] = self.bilform(elem_trial, elem_test)
            return mat'''), runs=300)
mut('residual causality skip uses the end of the trial element', 'C03',
    (EE, '                    if t <= elem_trial.time_interval[0]: continue',
     '                    if t < elem_trial.time_interval[1]: continue'), runs=300)
mut('closed-form M0u0 of the singular square perturbed', 'C03',
    ('problems.py', '''                (1 - b) / (2 * np.sqrt(t))) + erf(b / (2 * np.sqrt(t))))

    return {'u0': lambda xy: 1, 'M0u0': M0u0}


def singular_lshape''', '''                (1 - b) / (2 * np.sqrt(t))) + erf(b / (4 * np.sqrt(t))))

    return {'u0': lambda xy: 1, 'M0u0': M0u0}


def singular_lshape'''), runs=500)

mut('M0 problem label dropped from the file name (md5 kept)', 'C17',
    (IP, '''cache_fn = "{}/M0_{}_{}_{}.npy".format(self.cache_dir,
                                                   self.problem, N, md5)''',
     '''cache_fn = "{}/M0_{}_{}.npy".format(self.cache_dir, N, md5)'''))
mut('module-level pool reused across calls', 'C17',
    (SL, 'def MP_SL_matrix_col(j: int) -> npt.ArrayLike:',
     '_POOL = []\n\n\ndef MP_SL_matrix_col(j: int) -> npt.ArrayLike:'),
    (SL, '''            for j, col in enumerate(
                    mp.Pool(mp.cpu_count()).imap(MP_SL_matrix_col, range(M),''',
     '''            if not _POOL: _POOL.append(mp.Pool(mp.cpu_count()))
            for j, col in enumerate(
                    _POOL[0].imap(MP_SL_matrix_col, range(M),'''))
mut('matrix saved inside the loop (partial file on a crash)', 'C17',
    (SL, '                mat[:, j] = col\n',
     '''                mat[:, j] = col
                if self.cache_dir is not None and j % 4 == 3:
                    try:
                        np.save(cache_fn, mat)
                    except:
                        pass
'''))
mut('cache key formats coordinates with 6 significant digits', 'C17',
    (SL, '''            md5 = hashlib.md5((str(self.mesh.gamma_space) + str(elems_test) +
                               str(elems_trial)).encode()).hexdigest()''',
     '''            _k = lambda es: ';'.join('{:g},{:g},{:g},{:g}'.format(
                *e.time_interval, *e.space_interval) for e in es)
            md5 = hashlib.md5((str(self.mesh.gamma_space) + _k(elems_test) +
                               '|' + _k(elems_trial)).encode()).hexdigest()'''))
mut('residual no longer registers the point tables of new elements', 'C03',
    (EE, '        SL._init_elems(elems)\n', '        pass\n'), runs=400)

mut('grading never refines deep time-marked leaves (endless sweeps)', 'C19',
    (MESH, '''            for elem in marked_time:
                self.refine_time(elem)''',
     '''            for elem in marked_time:
                if elem.level_time < 3: self.refine_time(elem)'''))
mut('targeting keeps scanning the cell it already refined (endless loop)',
    'C16',
    (IM, '            children = self.refine(parent)',
     '            self.refine(parent); children = [parent]'))

"""SimSet: stands in for the builtin `set` inside src.initial_mesh.

CPython hashes the quadtree's Element objects by address, so the iteration
order of InitialMesh.leaf_elements differs between processes, between a parent
and its forked workers, and after every mutation.  SimSet makes that order a
seeded decision: stable while the set is unmodified (what CPython guarantees),
redrawn after every mutation."""
from .core import H

ORDER_SEED = 0
_instances = 0
STATS = {'iterations': 0, 'orders': set()}


def reseed(seed):
    global ORDER_SEED, _instances
    ORDER_SEED = seed
    _instances = 0


class SimSet:
    def __init__(self, iterable=()):
        global _instances
        _instances += 1
        self._inst = _instances
        self._items = {}  # id -> (obj, insertion number)
        self._n = 0
        self._epoch = 0
        self._order = None
        for x in iterable:
            self.add(x)

    def _key(self, x):
        try:
            hash(x)
        except TypeError:
            raise
        return x if isinstance(x, (int, str, tuple, float)) else id(x)

    def add(self, x):
        k = self._key(x)
        if k not in self._items:
            self._items[k] = (x, self._n)
            self._n += 1
            self._touch()

    def remove(self, x):
        del self._items[self._key(x)]
        self._touch()

    def discard(self, x):
        if self._key(x) in self._items:
            self.remove(x)

    def update(self, it):
        for x in it:
            self.add(x)

    def _touch(self):
        self._epoch += 1
        self._order = None

    def __contains__(self, x):
        return self._key(x) in self._items

    def __len__(self):
        return len(self._items)

    def __iter__(self):
        if self._order is None:
            vals = sorted(self._items.values(),
                          key=lambda on: H(ORDER_SEED, self._inst, self._epoch,
                                           on[1]))
            self._order = [o for o, _ in vals]
        STATS['iterations'] += 1
        return self._iterate(list(self._order), self._epoch)

    def _iterate(self, order, epoch):
        for x in order:
            if self._epoch != epoch:
                raise RuntimeError('Set changed size during iteration')
            yield x

    def __bool__(self):
        return bool(self._items)

    def __repr__(self):
        return 'SimSet({})'.format(list(self))


def install(initial_mesh_module):
    """Shadow the builtin `set` in the module namespace of src.initial_mesh."""
    initial_mesh_module.set = SimSet


def uninstall(initial_mesh_module):
    if 'set' in vars(initial_mesh_module):
        del initial_mesh_module.set

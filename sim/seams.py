"""Installs every seam of the L1/L2 layers before the repo's modules are
imported (and re-points already imported ones)."""
import sys

from . import repo, simclock, simdisk, simmp, simset

_installed = [False]


def install():
    if _installed[0]:
        return
    sys.modules['multiprocessing'] = simmp.MODULE
    simdisk.install()
    simclock.install()
    repo.ensure_path()
    # modules of the repo that were imported before the seams were in place
    for name, m in list(sys.modules.items()):
        if m is None or not (name == 'src' or name.startswith('src.')):
            continue
        if getattr(m, 'mp', None) is simmp._real_mp:
            m.mp = simmp.MODULE
        if getattr(m, 'multiprocessing', None) is simmp._real_mp:
            m.multiprocessing = simmp.MODULE
        if getattr(m, 'Pool', None) is getattr(simmp._real_mp, 'Pool', None):
            if 'Pool' in vars(m):
                m.Pool = simmp.Pool
    IM = repo.mod('src.initial_mesh')
    simset.install(IM)
    _installed[0] = True


ALL = ('src.mesh', 'src.parametrization', 'src.quadrature', 'src.norms',
       'src.initial_mesh', 'src.single_layer', 'src.initial_potential',
       'src.error_estimator', 'src.hierarchical_error_estimator',
       'src.h_h2_error_estimator', 'problems')


def preload():
    install()
    for m in ALL:
        repo.mod(m)
    from . import simcrash
    simcrash.install()

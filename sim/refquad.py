"""RefQuad: reference model of the domain quadtree.  A leaf is an integer
square (x0, y0, s) on a global grid in which every root occupies an S x S box
at an integer position.  2:1 balance is restored by a least-fixpoint closure."""
LOGQ = 40
SQ = 1 << LOGQ


def qlev(s):
    return LOGQ - (s.bit_length() - 1)


class RefQuad:
    def __init__(self, roots):
        """roots: list of integer positions (ix, iy)."""
        self.roots = list(roots)
        self.leaves = set()
        for ix, iy in roots:
            self.leaves.add((ix * SQ, iy * SQ, SQ))
        self.n_refine = 0

    def copy(self):
        m = RefQuad.__new__(RefQuad)
        m.roots = self.roots
        m.leaves = set(self.leaves)
        m.n_refine = self.n_refine
        return m

    def leaf_at(self, px, py):
        for (x, y, s) in self.leaves:
            if x <= px < x + s and y <= py < y + s:
                return (x, y, s)
        return None

    def neighbours(self, lf):
        x, y, s = lf
        out = []
        for (a, b, t) in self.leaves:
            if (a, b, t) == lf:
                continue
            # share an edge piece of positive length
            if (a + t == x or x + s == a) and (b < y + s and y < b + t):
                out.append((a, b, t))
            elif (b + t == y or y + s == b) and (a < x + s and x < a + t):
                out.append((a, b, t))
        return out

    def _split(self, lf):
        x, y, s = lf
        h = s // 2
        self.leaves.remove(lf)
        ch = [(x, y, h), (x + h, y, h), (x + h, y + h, h), (x, y + h, h)]
        self.leaves.update(ch)
        self.n_refine += 1
        return ch

    def refine(self, lf):
        work = self._split(lf)
        while work:
            c = work.pop()
            if c not in self.leaves:
                continue
            for n in self.neighbours(c):
                if n[2] >= 4 * c[2]:
                    work.extend(self._split(n))
                elif c[2] >= 4 * n[2]:
                    work.extend(self._split(c))
                    break

    def covering(self, x, y, s):
        """The leaf that is the cell (x, y, s) or one of its ancestors."""
        t = s
        while t <= SQ:
            c = (x - x % t, y - y % t, t)
            if c in self.leaves:
                return c
            t *= 2
        return None

    def unbalanced(self):
        """Pairs (leaf, edge-neighbour at least two levels coarser)."""
        bad = []
        for lf in self.leaves:
            x, y, s = lf
            for nx, ny in ((x - s, y), (x + s, y), (x, y - s), (x, y + s)):
                n = self.covering(nx, ny, s)
                if n is not None and n[2] >= 4 * s:
                    bad.append((lf, n))
        return bad


def is_quad_tiling(leaves, roots):
    per = {r: [] for r in roots}
    for (x, y, s) in leaves:
        r = (x // SQ, y // SQ)
        if r not in per or s <= 0 or s & (s - 1) or x % s or y % s or s > SQ:
            return False, ('not a dyadic square of a root', (x, y, s))
        per[r].append((x, y, s))
    for r, lst in per.items():
        if sum(s * s for _, _, s in lst) != SQ * SQ:
            return False, ('area', r)
        seen = set()
        # dyadic squares of equal total area tile iff no two overlap; two
        # dyadic squares overlap iff one contains the other
        st = set(lst)
        if len(st) != len(lst):
            return False, ('duplicate', r)
        for (x, y, s) in lst:
            t = s * 2
            while t <= SQ:
                anc = (x - x % t, y - y % t, t)
                if anc in st:
                    return False, ('overlap', (x, y, s))
                t *= 2
    return True, None

"""Crash points between I/O events: the process may die at any *compute
step* -- a pair/element evaluation finishing in the parent process, or a
pool result being handed to the consumer -- not only inside a load or save.
What survives is whatever is on the disk at that instant."""
import os

STATE = {'steps': 0, 'crash_at': None, 'on_crash': None, 'pid': None,
         'installed': False, 'fired': False}


def arm(crash_at=None, on_crash=None):
    STATE.update(steps=0, crash_at=crash_at, on_crash=on_crash,
                 pid=os.getpid(), fired=False)


def step(kind=None):
    if STATE['pid'] != os.getpid() or STATE['fired']:
        return  # pool workers and dead sessions do not count
    STATE['steps'] += 1
    if STATE['crash_at'] is not None and STATE['steps'] >= STATE['crash_at']:
        STATE['fired'] = True
        if STATE['on_crash'] is not None:
            STATE['on_crash'](kind)


def install():
    """Counts completed evaluations of the two per-pair / per-element
    methods the property names (bilform, linform), from outside."""
    if STATE['installed']:
        return
    from . import repo
    for modname, cls, meth in (('src.single_layer', 'SingleLayerOperator',
                                'bilform'),
                               ('src.initial_potential', 'InitialOperator',
                                'linform')):
        klass = getattr(repo.mod(modname), cls, None)
        orig = getattr(klass, meth, None) if klass is not None else None
        if orig is None:
            continue

        def make(orig, meth):
            def wrapped(self, *a, **k):
                r = orig(self, *a, **k)
                step(meth)
                return r

            wrapped.__name__ = orig.__name__
            wrapped.__doc__ = orig.__doc__
            wrapped.__wrapped__ = orig
            return wrapped

        setattr(klass, meth, make(orig, meth))
    STATE['installed'] = True

"""L2: the real example.py, unmodified, as a killable process.

The driver runs through runpy as __main__ in a forked child under all seams
(SimMP, SimDisk, SimClock, SimSet); a crash is os._exit at a seam event
after the torn-write effect was applied; only the scratch directory
survives; a restart is another fork."""
import hashlib
import os
import pickle
import runpy
import struct
import sys

import numpy as np

from . import repo, seams, simclock, simcrash, simdisk, simmp, simset
from .core import H


def _md5(a):
    return hashlib.md5(np.ascontiguousarray(a).tobytes()).hexdigest()[:12]


def run_driver(argv, cwd, workers, sched_seed, max_iter, crash=None,
               save_fault=None, observer=None, stats=None, timeout_s=600):
    """Runs example.py with argv in cwd.  Returns (exit status, events).

    events: list of tuples written by the child as they happen --
      ('solve', k, shape, md5 mat, md5 rhs, md5 Phi)
      ('residual', k, N, payload of observer)
      ('disk', trace) at the end / at the crash
    crash: dict(at_event, torn) -> os._exit(77) inside that seam event."""
    r, w = os.pipe()
    sys.stdout.flush()
    sys.stderr.flush()
    pid = os.fork()
    if pid == 0:
        code = 70
        try:
            os.close(r)

            def emit(ev):
                data = pickle.dumps(ev)
                os.write(w, struct.pack('<Q', len(data)) + data)

            import warnings
            warnings.simplefilter('ignore')
            seams.install()
            os.chdir(cwd)
            simclock.reset()

            class _Stats:
                def __init__(self):
                    self.n = {}

                def inc(self, k, v=1):
                    self.n[k] = self.n.get(k, 0) + v

                def add(self, k, v):
                    self.n['distinct.' + k] = self.n.get('distinct.' + k,
                                                         0) + 1

                def max(self, k, v):
                    pass

            st = _Stats()
            simcrash.install()
            simmp.arm(workers, H(sched_seed), stats=st, clock=simclock.CLOCK,
                      on_item=simcrash.step)

            def on_crash(kind=None):
                if kind:
                    st.inc('fault.crash_at_compute_step.' + kind)
                emit(('disk', list(simdisk.STATE['trace']), st.n,
                      simclock.CLOCK.elapsed()))
                os._exit(77)

            simcrash.arm(crash_at=(crash or {}).get('at_step'),
                         on_crash=on_crash)
            simdisk.arm(stats=st,
                        crash_at=(crash or {}).get('at_event'),
                        crash_torn=(crash or {}).get('torn'),
                        save_fault=save_fault,
                        fault_prefixes=('SL_', 'M0_'),
                        on_crash=on_crash)
            simset.reseed(H(sched_seed, 'set'))
            state = {'k': 0}
            orig_solve = np.linalg.solve

            def solve(a, b):
                x = orig_solve(a, b)
                emit(('solve', state['k'], tuple(a.shape), _md5(a), _md5(b),
                      _md5(x)))
                return x

            np.linalg.solve = solve
            EE = repo.mod('src.error_estimator')
            orig_residual = EE.ErrorEstimator.residual

            def residual(self, elems, Phi, SL, *a, **kw):
                res = orig_residual(self, elems, Phi, SL, *a, **kw)
                payload = None
                if observer is not None:
                    payload = observer(res, list(elems), state['k'])
                emit(('residual', state['k'], len(elems), payload))
                state['k'] += 1
                if state['k'] >= max_iter or (payload
                                              and payload.get('stop')):
                    emit(('disk', list(simdisk.STATE['trace']), st.n,
                          simclock.CLOCK.elapsed()))
                    os._exit(0)
                return res

            EE.ErrorEstimator.residual = residual
            sys.argv = ['example.py'] + list(argv)
            try:
                runpy.run_path(os.path.join(repo.REPO, 'example.py'),
                               run_name='__main__')
                code = 0
            except SystemExit as ex:
                code = ex.code if isinstance(ex.code, int) else 1
            except BaseException as ex:  # noqa
                import traceback
                tb = traceback.extract_tb(ex.__traceback__)
                emit(('exception', state['k'], type(ex).__name__,
                      repr(ex)[:300], [
                          '{}:{}'.format(x.filename.split('/')[-1], x.lineno)
                          for x in tb
                          if repo.REPO in x.filename
                      ][-4:]))
                code = 71
            emit(('disk', list(simdisk.STATE['trace']), st.n,
                  simclock.CLOCK.elapsed()))
        except BaseException:  # noqa
            import traceback
            traceback.print_exc()
        finally:
            simmp.reap_all()
            os._exit(code)
    os.close(w)
    buf = b''
    while True:
        chunk = os.read(r, 1 << 16)
        if not chunk:
            break
        buf += chunk
    os.close(r)
    _, status = os.waitpid(pid, 0)
    events = []
    off = 0
    while off + 8 <= len(buf):
        n = struct.unpack('<Q', buf[off:off + 8])[0]
        if off + 8 + n > len(buf):
            break
        events.append(pickle.loads(buf[off + 8:off + 8 + n]))
        off += 8 + n
    code = os.waitstatus_to_exitcode(status)
    return code, events


def driver_args(spec):
    a = ['--problem', spec['problem'], '--domain', spec['domain'],
         '--refinement', spec['refinement'], '--theta', repr(spec['theta']),
         '--estimator-quadrature', spec.get('quad', '1111')]
    if not spec.get('h_h2'):
        a.append('--no-h-h2')
    if spec.get('pw_exact'):
        a.append('--single-layer-exact')
    if spec.get('hierarchical'):
        a.append('--hierarchical')
    if spec.get('grading'):
        a += ['--grading', '--grading-sigma', repr(spec['grading'])]
    return a

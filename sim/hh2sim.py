"""L1 engine for the h-h/2 and hierarchical estimators and Prolongate (C20):
serial / pool paths under SimPool, and RefEstim -- an independent computation
on a replayed copy of the mesh that is really bisected, children identified
by geometry, matrices from single-pair evaluations."""
import numpy as np

from . import meshsim, repo, seams, simclock, simdisk, simmp, simset
from .core import H, SkipRun, Violation, stream
from .sessions import WITH_DOMAIN, canon_leaves, geom, u0_of

PROP = 'C20'
CLOSED = ('UnitSquare', 'PiSquare', 'LShape', 'Circle')


class _NoCov:
    def inc(self, *a):
        pass

    def add(self, *a):
        pass

    def max(self, *a):
        pass


def g_linform_of(kind):
    if kind == 'dirichlet':
        return lambda elems: np.array([e.h_t * e.h_x for e in elems])
    if kind == 'mild':
        return lambda elems: np.array([
            1 / 3 * e.h_x * (e.time_interval[1]**3 - e.time_interval[0]**3)
            for e in elems
        ])
    if kind == 'ramp':
        return lambda elems: np.array([
            e.h_t * e.h_x * (1 + 0.5 * (e.time_interval[0] + e.time_interval[
                1]) + 0.1 * (e.space_interval[0] + e.space_interval[1]))
            for e in elems
        ])
    return None


def build_mesh(curve, history, time=None, snapshots=None):
    config = {'kind': 'param', 'curve': curve, 'space': None, 'time': time}
    case = meshsim.MeshCase(config)
    if curve == 'LShape':
        for e in list(case.mesh.leaf_elements):
            if e.h_x > 1:
                case.mesh.refine_space(e)
        case.model.adopt(case.impl_boxes())
    if snapshots is not None:
        snapshots.append(list(case.mesh.leaf_elements))
    for op in history:
        meshsim.apply_op(case, op, _NoCov(), {'compare': False,
                                              'model': True}, [])
        if snapshots is not None:
            snapshots.append(list(case.mesh.leaf_elements))
    return case


def contains(big, small):
    (T0, T1), (X0, X1) = big
    (t0, t1), (x0, x1) = small
    return T0 <= t0 and t1 <= T1 and X0 <= x0 and x1 <= X1


class HH2Case:
    def __init__(self, run, cov, log):
        seams.install()
        self.run, self.cov, self.log = run, cov, log
        self.cfg = run['cfg']
        self.curve = run['curve']
        self.history = list(run['history'])
        self.build()
        simclock.reset()

    def build(self):
        SLm = repo.mod('src.single_layer')
        IPm = repo.mod('src.initial_potential')
        IM = repo.mod('src.initial_mesh')
        self.snapshots = []
        self.case = build_mesh(self.curve, self.history,
                               time=self.run.get('time'),
                               snapshots=self.snapshots)
        mesh = self.case.mesh
        kw = dict(quad_order=self.cfg['quad_order'],
                  pw_exact=self.cfg['pw_exact'])
        self.SL = SLm.SingleLayerOperator(mesh, cache_dir=None, **kw)
        # replayed copy, really bisected
        self.case2 = build_mesh(self.curve, self.history,
                                time=self.run.get('time'))
        self.case2.mesh.uniform_refine()
        self.refSL = SLm.SingleLayerOperator(self.case2.mesh, cache_dir=None,
                                             **kw)
        self.M0 = self.refM0 = None
        if self.cfg.get('u0') and self.curve in WITH_DOMAIN:
            fac = getattr(IM, self.curve + 'BoundaryRefined')
            u0 = u0_of(self.cfg['u0'])
            self.M0 = IPm.InitialOperator(bdr_mesh=mesh, u0=u0,
                                          initial_mesh=fac,
                                          quad_int=self.cfg['quad_int'])
            self.refM0 = IPm.InitialOperator(bdr_mesh=self.case2.mesh, u0=u0,
                                             initial_mesh=fac,
                                             quad_int=self.cfg['quad_int'])
        self.g = g_linform_of(self.cfg.get('g'))
        self._est = {}
        self._lists = {}
        self.memo = {}
        self.memo_m0 = {}
        self.coarse = canon_leaves(mesh)
        self.fine = canon_leaves(self.case2.mesh)
        # geometric parent of every fine leaf
        cg = [geom(e) for e in self.coarse]
        self.parent_of = []
        for f in self.fine:
            gf = geom(f)
            hits = [i for i, c in enumerate(cg) if contains(c, gf)]
            if len(hits) != 1:
                raise SkipRun('replayed-copy-mismatch')
            self.parent_of.append(hits[0])
        if len(self.fine) != 4 * len(self.coarse):
            raise SkipRun('replayed-copy-mismatch')
        # the coarse elements as they exist in the replayed copy (ancestors
        # of its leaves), so that the reference never mixes the two meshes
        self.coarse2 = [None] * len(self.coarse)
        for f, i in zip(self.fine, self.parent_of):
            a = f
            while a is not None and geom(a) != cg[i]:
                a = a.parent
            if a is None:
                raise SkipRun('replayed-copy-mismatch')
            self.coarse2[i] = a

    def viol(self, cls, site, detail):
        d = dict(detail)
        d.update(curve=self.curve, n_coarse=len(self.coarse),
                 cfg=self.cfg)
        raise Violation(PROP, cls, site, d)

    # -------------------------------------------------------- reference ---
    def bil(self, trial, test):
        k = (geom(trial), geom(test))
        v = self.memo.get(k)
        if v is None:
            v = float(self.refSL.bilform(trial, test))
            self.memo[k] = v
        return v

    def ref_matrix(self, test, trial):
        return np.array([[self.bil(r, t) for r in trial] for t in test])

    def ref_data(self, elems, seed):
        """<data, 1_e> = g(e) - <M0 u0, 1_e> per element."""
        out = np.zeros(len(elems))
        if self.g is not None:
            out += self.g(elems)
        if self.refM0 is not None:
            for j, e in enumerate(elems):
                k = geom(e)
                v = self.memo_m0.get(k)
                if v is None:
                    simset.reseed(H(seed, 'ref', j))
                    v = float(self.refM0.linform(e)[0])
                    self.memo_m0[k] = v
                out[j] -= v
        return out

    def density(self, op):
        n = len(self.coarse)
        if op.get('density') == 'galerkin':
            A = self.ref_matrix(self.coarse2, self.coarse2)
            return np.linalg.solve(A, self.ref_data(self.coarse2, 1))
        rng = np.random.default_rng(op.get('density_seed', op.get('seed', 0)))
        return rng.uniform(-1, 1, n)

    def call(self, site, op, fn):
        simdisk.arm(stats=self.cov)
        simmp.arm(op.get('workers', 4), H(op.get('sched_seed', 0)),
                  stats=self.cov, clock=simclock.CLOCK)
        simset.reseed(H(op.get('sched_seed', 0), 'set'))
        try:
            return fn()
        except BaseException as ex:  # noqa
            from .core import HarnessTimeout
            if isinstance(ex, (HarnessTimeout, KeyboardInterrupt, SystemExit,
                               Violation)):
                raise
            import traceback
            tb = traceback.extract_tb(ex.__traceback__)
            self.viol(
                'exception', site + '/' + type(ex).__name__, {
                    'exception': repr(ex)[:300],
                    'where': [
                        '{}:{}'.format(x.filename.split('/')[-1], x.lineno)
                        for x in tb if '/src/' in x.filename
                    ][-3:]
                })
        finally:
            simmp.collect()

    # -------------------------------------------------------------- ops ---
    def step(self, op):
        kind = op['op']
        self.cov.inc('ops')
        self.cov.inc('opkind.' + kind)
        getattr(self, 'op_' + kind)(op)

    def op_refine(self, op):
        self.history.extend(op['ops'])
        self.build()
        self.log.append(('refine', len(self.coarse)))

    def elems_in_order(self, op):
        # with 'reuse' the client keeps its list objects (and, below, its
        # estimator objects) from one call to the next
        key = (op.get('order'),
               op.get('seed') if op.get('order') == 'perm' else None)
        if self.run.get('reuse') is True and key in self._lists:
            self.cov.inc('probe.same_list_object_again')
            return self._lists[key]
        if op.get('order') == 'impl':
            elems = list(self.case.mesh.leaf_elements)
        else:
            elems = list(self.coarse)
            if op.get('order') == 'perm':
                stream(op.get('seed', 0), 'perm').shuffle(elems)
        if self.run.get('reuse') == 'recycle' and (
                self._lists.get('last') is not None):
            obj = self._lists['last']
            obj[:] = elems
            elems = obj
            self.cov.inc('probe.list_object_recycled_with_other_content')
        if self.run.get('reuse'):
            self._lists[key] = elems
            self._lists['last'] = elems
        return elems

    def estimator(self, key, make):
        if not self.run.get('reuse') or key is None:
            return make()
        if key in self._est:
            self.cov.inc('probe.same_estimator_object_again')
        else:
            self._est[key] = make()
        return self._est[key]

    def op_hh2(self, op):
        HH = repo.mod('src.h_h2_error_estimator')
        elems = self.elems_in_order(op)
        pos = {id(e): i for i, e in enumerate(self.coarse)}
        Phi_c = self.density(op)  # canonical order
        Phi = np.array([Phi_c[pos[id(e)]] for e in elems])
        planted = op.get('planted')
        # reference on the really bisected copy
        A2 = self.ref_matrix(self.fine, self.fine)
        P = np.array([Phi_c[i] for i in self.parent_of])
        if planted:
            # data := A_fine @ prolongation, evaluated by geometry on
            # whatever (virtual) fine elements the estimator hands over
            def g(elems_fine):
                cg = [geom(e) for e in self.coarse]
                p = []
                for f in elems_fine:
                    hits = [i for i, c in enumerate(cg)
                            if contains(c, geom(f))]
                    p.append(Phi_c[hits[0]])
                A = self.ref_matrix(elems_fine, elems_fine)
                return A @ np.array(p)

            M0 = None
            rhs2 = A2 @ P
        else:
            g, M0 = self.g, self.M0
            rhs2 = self.ref_data(self.fine, op.get('sched_seed', 0))
        d = np.linalg.solve(A2, rhs2) - P
        ref = float(np.sqrt(d @ A2 @ d))
        scale = float(np.sqrt(P @ A2 @ P))
        vals = {}
        for use_mp in ((False, True) if op.get('use_mp') else (False, )):
            est = self.estimator(
                None if planted else ('hh2', use_mp),
                lambda: HH.HH2ErrorEstimator(SL=self.SL, M0=M0, g=g,
                                             use_mp=use_mp))
            v = self.call('hh2/' + ('pool' if use_mp else 'serial'), op,
                          lambda: est.estimate(elems, Phi))
            self.cov.inc('path.' + ('pool' if use_mp else 'serial'))
            vals[use_mp] = float(v)
            if planted:
                if not (abs(v) <= 1e-7 * max(scale, 1e-300)):
                    self.viol('planted-not-zero', 'hh2', {
                        'value': float(v),
                        'scale': scale
                    })
            elif not (abs(v - ref) <= 1e-8 * max(abs(ref), 1e-6 * scale)):
                self.viol(
                    'hh2-value', 'hh2/' + ('pool' if use_mp else 'serial'), {
                        'value': float(v),
                        'reference': ref,
                        'scale': scale,
                        'order': op.get('order')
                    })
        if len(vals) == 2 and vals[False] != vals[True] and not planted:
            self.viol('pool-differs', 'hh2', {'vals': vals,
                                               'schedule':
                                               simmp.STATE['log'][:1]})
        self.cov.inc('probe.planted' if planted else 'probe.hh2_compared')
        self.log.append(('hh2', len(elems), vals.get(False),
                         simmp.STATE['log']))

    def op_hier(self, op):
        HE = repo.mod('src.hierarchical_error_estimator')
        elems = self.elems_in_order(op)
        pos = {id(e): i for i, e in enumerate(self.coarse)}
        Phi_c = self.density(op)
        Phi = np.array([Phi_c[pos[id(e)]] for e in elems])
        est = self.estimator(
            ('hier', ), lambda: HE.HierarchicalErrorEstimator(
                SL=self.SL, M0=self.M0, g=self.g))
        got = self.call('hierarchical', op, lambda: est.estimate(elems, Phi))
        self.cov.inc('path.pool')
        if not isinstance(got, np.ndarray) or got.shape != (len(elems), 2):
            self.viol('wrong-shape', 'hierarchical',
                      {'shape': getattr(got, 'shape', None)})
        # reference: geometric two-level functions on the real quarters
        data = self.ref_data(self.fine, op.get('sched_seed', 0))
        for row, e in enumerate(elems):
            ci = pos[id(e)]
            q = [k for k, p in enumerate(self.parent_of) if p == ci]
            (t0, t1), (x0, x1) = geom(e)
            tm, xm = (t0 + t1) / 2, (x0 + x1) / 2
            s_t = np.array([
                1.0 if self.fine[k].time_interval[1] <= tm else -1.0 for k in q
            ])
            s_x = np.array([
                1.0 if self.fine[k].space_interval[1] <= xm else -1.0
                for k in q
            ])
            S = self.ref_matrix([self.fine[k] for k in q],
                                [self.fine[k] for k in q])
            VPhi = np.array([
                sum(Phi_c[j] * self.bil(self.coarse2[j], self.fine[k])
                    for j in range(len(self.coarse))) for k in q
            ])
            res = data[q] - VPhi
            mag = float(np.sum(np.abs(res))) + 1e-8 * float(
                np.sum(np.abs(data[q])) + np.sum(np.abs(VPhi)))
            ind = []
            for s in (s_t, s_x, s_t * s_x):
                den = float(s @ S @ s)
                ind.append((float(s @ res)**2 / den, mag**2 / den))
            want = (ind[0][0] + 0.5 * ind[2][0], ind[1][0] + 0.5 * ind[2][0])
            tol = (1e-8 * (ind[0][1] + ind[2][1]),
                   1e-8 * (ind[1][1] + ind[2][1]))
            for k in range(2):
                if got[row, k] < 0:
                    self.viol('negative', 'hierarchical', {'elem': repr(e)})
                if abs(got[row, k] - want[k]) > tol[k]:
                    self.viol(
                        'hier-value',
                        'hierarchical/' + ('time', 'space')[k], {
                            'elem': repr(e),
                            'value': float(got[row, k]),
                            'reference': want[k],
                            'uncancelled_scale': tol[k] / 1e-8,
                            'order': op.get('order')
                        })
        self.cov.inc('probe.hier_compared')
        self.log.append(('hier', len(elems), float(got.sum()),
                         simmp.STATE['log']))

    def op_prolongate(self, op):
        M = repo.mod('src.mesh')
        snaps = self.snapshots
        a = op['a'] % len(snaps)
        b = op['b'] % len(snaps)
        a, b = min(a, b), max(a, b)
        coarse, fine = list(snaps[a]), list(snaps[b])
        rng = np.random.default_rng(op.get('seed', 0))
        if op.get('shuffle'):
            rng.shuffle(coarse)
            rng.shuffle(fine)
        vec = rng.uniform(-1, 1, len(coarse))
        got = self.call('Prolongate', op,
                        lambda: M.Prolongate(vec, coarse, fine))
        cg = [geom(e) for e in coarse]
        for j, f in enumerate(fine):
            hits = [i for i, c in enumerate(cg) if contains(c, geom(f))]
            if len(hits) != 1 or got[j] != vec[hits[0]]:
                self.viol('prolongate', 'Prolongate', {
                    'fine': repr(f),
                    'a': a,
                    'b': b
                })
        if a != b:
            self.cov.inc('probe.prolongate_across_levels')
        self.log.append(('prolongate', a, b))


def execute(run, cov, log):
    try:
        c = HH2Case(run, cov, log)
        for op in run['ops']:
            c.step(op)
    except meshsim.Finding as f:
        raise SkipRun('foreign-mesh-' + f.kind)
    finally:
        simmp.reap_all()
        simdisk.disarm()
        cov.inc('sim_time_ms', int(simclock.CLOCK.elapsed() * 1000))
    if run['ops']:
        cov.add('nontrivial_runs', H(run))
    cov.add('configs', (run['curve'], str(run['cfg'])))


def gen_run(seed, params):
    from .sessions import gen_history
    seams.install()
    rng = stream(seed, 'workload')
    curve = rng.choice(CLOSED)
    with_u0 = curve in WITH_DOMAIN and rng.random() < params.get('p_u0', 0.2)
    sizes = params.get('sizes_u0', [4, 5, 6]) if with_u0 else params.get(
        'sizes', [4, 6, 8, 10, 12])
    target = rng.choice(sizes)
    # custom initial time grids: several slabs of unequal height, so that
    # equal refinement levels no longer mean equal sizes
    time = None
    if rng.random() < params.get('p_time_grid', 0.2):
        time = rng.choice([[0.0, 0.25, 1.0], [0.0, 0.5, 0.75, 1.5],
                           [0.0, 0.3, 1.0], [0.0, 1.0, 1.5]])
        target = max(target, 4 * (len(time) - 1) + 2)
    hist, n = gen_history(rng, curve, target, time=time)
    cfg = {
        'pw_exact': rng.random() < 0.4,
        'quad_order': rng.choice([4, 6, 8, 12]),
        'quad_int': rng.choice([2, 3]),
        'u0': rng.choice(['one', 'sine']) if with_u0 else None,
        'g': rng.choice(['dirichlet', 'mild', 'ramp']) if
        (not with_u0 or rng.random() < 0.3) else None,
    }
    ops = []
    for _ in range(rng.randint(1, params.get('max_ops', 3))):
        r = rng.random()
        base = {
            'workers': rng.randint(1, 16),
            'sched_seed': rng.randrange(1 << 30),
            'seed': rng.randrange(1 << 30),
            'density': rng.choice(['random', 'galerkin']),
            'order': rng.choice(['impl', 'canon', 'perm'])
        }
        if r < 0.3:
            ops.append(dict(base, op='hh2', use_mp=rng.random() < 0.7))
        elif r < 0.42:
            ops.append(dict(base, op='hh2', use_mp=rng.random() < 0.5,
                            planted=True))
        elif r < 0.75:
            ops.append(dict(base, op='hier'))
        elif r < 0.92:
            ops.append({'op': 'prolongate', 'a': rng.randrange(64),
                        'b': rng.randrange(64), 'seed': base['seed'],
                        'shuffle': rng.random() < 0.5})
        elif n <= 12 and not with_u0:
            ops.append({'op': 'refine', 'ops': [{
                'op': 'bisect',
                'pt': [rng.randrange(0, 1 << 48), rng.randrange(0, 1 << 48)],
                'axis': rng.choice([0, 1])}]})
    if not ops:
        ops.append({'op': 'prolongate', 'a': 0, 'b': 63, 'seed': 1})
    run = {'curve': curve, 'history': hist, 'cfg': cfg, 'ops': ops}
    if time is not None:
        run['time'] = time
    # call histories on one estimator object (own stream: the runs without
    # this feature stay what they were): estimator and list objects are kept
    # between calls, the densities change
    hrng = stream(seed, 'workload-hist')
    if hrng.random() < params.get('p_reuse', 0.35):
        run['reuse'] = True if hrng.random() < 0.65 else 'recycle'
        kinds = [o['op'] for o in ops if o['op'] in ('hh2', 'hier')]
        kind = hrng.choice(kinds) if kinds else hrng.choice(['hh2', 'hier'])
        first = next((o for o in ops if o['op'] == kind), None)
        for _ in range(hrng.randint(1, 2)):
            extra = {
                'workers': hrng.randint(1, 16),
                'sched_seed': hrng.randrange(1 << 30),
                'seed': first['seed'] if first else hrng.randrange(1 << 30),
                'density': hrng.choice(['random', 'galerkin']),
                'order': first['order'] if first else 'canon',
                'op': kind
            }
            if kind == 'hh2':
                extra['use_mp'] = hrng.random() < 0.7
            extra['density_seed'] = hrng.randrange(1 << 30)
            if run['reuse'] == 'recycle':
                extra['order'] = 'perm'
                extra['seed'] = hrng.randrange(1 << 30)
            ops.append(extra)
    return run


def shrink_run(run):
    from .core import ddmin_lists
    for cand in ddmin_lists(run['ops']):
        if cand:
            yield dict(run, ops=cand)
    for cand in ddmin_lists(run['history']):
        yield dict(run, history=cand)
    for i, op in enumerate(run['ops']):
        if op.get('use_mp') and op.get('workers', 1) > 2:
            yield dict(run, ops=run['ops'][:i] + [dict(op, workers=2)] +
                       run['ops'][i + 1:])
        if op.get('order') in ('perm', 'impl'):
            yield dict(run, ops=run['ops'][:i] + [dict(op, order='canon')] +
                       run['ops'][i + 1:])

"""SimDisk: numpy.load / numpy.save behind a seam.  Real bytes in a per-run
scratch directory (numpy's own .npy reader/writer runs); what is simulated is
durability: torn / lost writes, failing saves and loads, and a crash that
freezes the disk mid-operation."""
import errno
import os

import numpy as _np

_orig_load = _np.load
_orig_save = _np.save

TORN_CLASSES = ('empty', 'magic', 'header_part', 'header_only', 'header_plus8',
                'half', 'len_minus_1', 'uniform')

STATE = {
    'active': False,
    'events': 0,  # seam events of the current op
    'dead': False,  # the current session has crashed: disk frozen
    'crash_at': None,  # event number at which the session dies
    'crash_torn': None,  # torn class applied if that event is a save
    'save_fault': None,  # armed for the next save: dict(kind, cls, u)
    'load_fault': None,  # armed for the next load: errno name
    'stats': None,
    'trace': [],  # (event, kind, basename, outcome)
    'written': [],  # paths completely written during the current op
    'loaded': [],  # paths successfully loaded during the current op
}


def arm(stats=None, crash_at=None, crash_torn=None, save_fault=None,
        load_fault=None, fault_prefixes=None, on_crash=None):
    STATE.update(active=True, events=0, dead=False, crash_at=crash_at,
                 crash_torn=crash_torn, save_fault=save_fault,
                 load_fault=load_fault, stats=stats, trace=[], written=[],
                 loaded=[], fault_prefixes=fault_prefixes, on_crash=on_crash)


def disarm():
    STATE['active'] = False


def _inc(name, k=1):
    if STATE['stats'] is not None:
        STATE['stats'].inc(name, k)


def header_len(data):
    """Length of magic + header of a .npy byte string."""
    if len(data) < 10:
        return len(data)
    major = data[6]
    if major == 1:
        return 10 + int.from_bytes(data[8:10], 'little')
    return 12 + int.from_bytes(data[8:12], 'little')


def torn_length(data, cls, u=0.5):
    n = len(data)
    h = min(header_len(data), n)
    if cls == 'empty':
        return 0
    if cls == 'magic':
        return 3
    if cls == 'header_part':
        return max(7, h // 2)
    if cls == 'header_only':
        return h
    if cls == 'header_plus8':
        return min(n - 1, h + 8 * (1 + int(u * 3)))
    if cls == 'half':
        return n // 2
    if cls == 'len_minus_1':
        return n - 1
    if cls == 'uniform':
        return min(n - 1, int(u * n))
    raise ValueError(cls)


def _publish(path, data, k):
    with open(path, 'wb') as f:
        f.write(data[:k])


def sim_save(file, arr, *args, **kwargs):
    if not STATE['active'] or not isinstance(file, (str, os.PathLike)):
        return _orig_save(file, arr, *args, **kwargs)
    path = os.fspath(file)
    if not path.endswith('.npy'):
        path += '.npy'
    STATE['events'] += 1
    ev = STATE['events']
    base = os.path.basename(path)
    if STATE['dead']:
        STATE['trace'].append((ev, 'save', base, 'dead'))
        return None
    # let numpy's real writer produce the bytes
    tmp = path + '.simtmp.npy'
    try:
        _orig_save(tmp, arr, *args, **kwargs)
    except FileNotFoundError:
        # target directory does not exist: behave like the real call
        STATE['trace'].append((ev, 'save', base, 'enoent-real'))
        raise
    with open(tmp, 'rb') as f:
        data = f.read()
    os.unlink(tmp)
    pref = STATE.get('fault_prefixes')
    faultable = pref is None or base.startswith(tuple(pref))
    if not faultable:
        # files the property promises nothing about are published atomically
        _publish(path, data, len(data))
        STATE['written'].append(path)
        STATE['trace'].append((ev, 'save', base, 'ok-atomic'))
        return None
    if STATE['crash_at'] is not None and ev >= STATE['crash_at']:
        cls = STATE['crash_torn'] or {'cls': 'empty'}
        if cls['cls'] == 'none':
            pass  # died before the file was created
        elif cls['cls'] == 'complete':
            _publish(path, data, len(data))
            STATE['written'].append(path)
        else:
            _publish(path, data, torn_length(data, cls['cls'], cls.get('u', .5)))
        STATE['dead'] = True
        _inc('fault.crash_in_save.' + cls['cls'])
        STATE['trace'].append((ev, 'save', base, 'crash:' + cls['cls']))
        if STATE.get('on_crash'):
            STATE['on_crash']()
        return None
    sf = STATE['save_fault']
    if sf is not None:
        STATE['save_fault'] = None
        kind = sf['kind']
        if kind == 'torn':
            _publish(path, data, torn_length(data, sf['cls'], sf.get('u', .5)))
            _inc('fault.save_torn.' + sf['cls'])
            STATE['trace'].append((ev, 'save', base, 'torn:' + sf['cls']))
            return None
        if kind == 'lost':
            _inc('fault.save_lost')
            STATE['trace'].append((ev, 'save', base, 'lost'))
            return None
        if kind == 'raise':
            k = torn_length(data, sf['cls'], sf.get('u', .5))
            if sf['cls'] != 'none':
                _publish(path, data, k)
            _inc('fault.save_raises.' + sf['errno'])
            STATE['trace'].append((ev, 'save', base, 'raise:' + sf['errno']))
            raise OSError(getattr(errno, sf['errno']),
                          os.strerror(getattr(errno, sf['errno'])), path)
    _publish(path, data, len(data))
    STATE['written'].append(path)
    _inc('disk.save_ok')
    STATE['trace'].append((ev, 'save', base, 'ok'))
    return None


def sim_load(file, *args, **kwargs):
    if not STATE['active'] or not isinstance(file, (str, os.PathLike)):
        return _orig_load(file, *args, **kwargs)
    path = os.fspath(file)
    STATE['events'] += 1
    ev = STATE['events']
    base = os.path.basename(path)
    if STATE['dead']:
        STATE['trace'].append((ev, 'load', base, 'dead'))
        raise FileNotFoundError(errno.ENOENT, 'dead session', path)
    if STATE['crash_at'] is not None and ev >= STATE['crash_at']:
        STATE['dead'] = True
        _inc('fault.crash_at_load')
        STATE['trace'].append((ev, 'load', base, 'crash'))
        if STATE.get('on_crash'):
            STATE['on_crash']()
        raise FileNotFoundError(errno.ENOENT, 'dead session', path)
    lf = STATE['load_fault']
    if lf is not None:
        STATE['load_fault'] = None
        _inc('fault.load_raises.' + lf)
        STATE['trace'].append((ev, 'load', base, 'raise:' + lf))
        raise OSError(getattr(errno, lf), os.strerror(getattr(errno, lf)),
                      path)
    try:
        arr = _orig_load(path, *args, **kwargs)
    except BaseException as ex:  # noqa
        exists = os.path.exists(path)
        _inc('disk.load_miss_torn' if exists else 'disk.load_miss_absent')
        STATE['trace'].append(
            (ev, 'load', base, 'miss:' + type(ex).__name__))
        raise
    _inc('disk.load_hit')
    STATE['loaded'].append(path)
    STATE['trace'].append((ev, 'load', base, 'hit'))
    return arr


def install():
    _np.load = sim_load
    _np.save = sim_save


def uninstall():
    _np.load = _orig_load
    _np.save = _orig_save


# ---- faults applied between ops ------------------------------------------
def damage(path, fault, cls=None, u=0.5):
    """delete / truncate (by class) / garble magic or header of a file."""
    with open(path, 'rb') as f:
        data = f.read()
    if fault == 'delete':
        os.unlink(path)
        return 'delete'
    if fault == 'truncate':
        k = torn_length(data, cls, u)
        with open(path, 'wb') as f:
            f.write(data[:k])
        return 'truncate:' + cls
    if fault == 'garble_magic':
        with open(path, 'wb') as f:
            f.write(b'\x00\x00\x00\x00\x00\x00' + data[6:])
        return 'garble_magic'
    if fault == 'garble_header':
        h = header_len(data)
        with open(path, 'wb') as f:
            f.write(data[:10] + b'X' * max(0, h - 10) + data[h:])
        return 'garble_header'
    raise ValueError(fault)


def try_load(path):
    """Harness-side load with the original numpy reader; None if the file is
    not a complete, valid .npy file."""
    try:
        return _orig_load(path)
    except BaseException:  # noqa
        return None

"""Imports the repository under test from $VERIF_REPO (default /repo) -- the
current working tree, no bytecode written into it."""
import importlib
import os
import sys

sys.dont_write_bytecode = True
os.environ.setdefault('OPENBLAS_NUM_THREADS', '1')
os.environ.setdefault('OMP_NUM_THREADS', '1')
os.environ.setdefault('MKL_NUM_THREADS', '1')

REPO = os.path.abspath(os.environ.get('VERIF_REPO', '/repo'))


def ensure_path():
    if REPO not in sys.path:
        sys.path.insert(0, REPO)


def mod(name):
    """import src.<name> (or top-level module) of the repo under test."""
    ensure_path()
    return importlib.import_module(name)


class Quiet:
    """Swallows the repo's progress prints inside harness workers."""
    def write(self, s):
        return len(s)

    def flush(self):
        pass

    def isatty(self):
        return False

"""L1 engine: operator sessions (SingleLayerOperator / InitialOperator on real
meshes) driven through their public API under SimPool / SimDisk / SimSet /
SimClock, with crashes, restarts and disk faults.  Serves C17."""
import hashlib
import os
import shutil

import numpy as np

from . import (meshsim, repo, seams, simclock, simcrash, simdisk, simmp,
               simset)
from .core import H, SkipRun, Violation, scratch_root, stream

PROP = 'C17'
CLOSED = ('UnitSquare', 'PiSquare', 'LShape', 'Circle')
WITH_DOMAIN = ('UnitSquare', 'PiSquare', 'LShape')
_run_counter = [0]


def u0_of(kind):
    if kind == 'one':
        return lambda xy: 1
    if kind == 'sine':
        return lambda xy: np.sin(np.pi * xy[0]) * np.sin(np.pi * xy[1])
    if kind == 'poly':
        return lambda xy: 1 + xy[0] * xy[1] - 0.5 * xy[1]**2
    raise ValueError(kind)


def geom(e):
    return (tuple(float(v) for v in e.time_interval),
            tuple(float(v) for v in e.space_interval))


def canon_leaves(mesh):
    return sorted(mesh.leaf_elements, key=geom)


class Session:
    def __init__(self, spec, dirs, dircfg, extra_history=()):
        """spec: the 'session' op.  Rebuilds everything from the recorded
        history (this is also what a restart does)."""
        self.spec = spec
        self.sid = spec['sid']
        self.curve = spec['curve']
        self.dir_idx = spec['dir']
        self.cache_dir = dirs[spec['dir']]
        self.cfg = dircfg[spec['dir']]
        self.history = list(spec['history']) + list(extra_history)
        self.dead = False
        self._keep = {}      # the client's list objects, per selection
        self._recycled = {}  # ... and per argument position
        SLm = repo.mod('src.single_layer')
        IPm = repo.mod('src.initial_potential')
        IM = repo.mod('src.initial_mesh')
        config = {'kind': 'param', 'curve': self.curve, 'space': None,
                  'time': spec.get('time')}
        self.case = meshsim.MeshCase(config)
        self._cov = None
        mesh = self.case.mesh
        if self.curve == 'LShape':
            # as the driver does: long sides are split so that every element
            # lies on a unit piece of the boundary
            for e in list(mesh.leaf_elements):
                if e.h_x > 1:
                    mesh.refine_space(e)
            self.case.model.adopt(self.case.impl_boxes())
        self.replay(self.history)
        self.SL = SLm.SingleLayerOperator(mesh,
                                          quad_order=self.cfg['quad_order'],
                                          pw_exact=self.cfg['pw_exact'],
                                          cache_dir=self.cache_dir)
        self.M0 = None
        self.u0_kind = spec.get('u0', self.cfg['u0'])
        if self.curve in WITH_DOMAIN:
            factory = getattr(IM, self.curve + 'BoundaryRefined')
            # like the driver: one label per (domain, problem); several
            # problems may share one cache directory
            self.u0_kind = spec.get('u0', self.cfg['u0'])
            problem = '{}_{}'.format(self.curve, self.u0_kind)
            u0 = u0_of(self.u0_kind)
            self.M0 = IPm.InitialOperator(bdr_mesh=mesh,
                                          u0=u0,
                                          initial_mesh=factory,
                                          quad_int=self.cfg['quad_int'],
                                          cache_dir=self.cache_dir,
                                          problem=problem)

    def fresh_ref_sl(self):
        SLm = repo.mod('src.single_layer')
        return SLm.SingleLayerOperator(self.case.mesh,
                                       quad_order=self.cfg['quad_order'],
                                       pw_exact=self.cfg['pw_exact'],
                                       cache_dir=None)

    def fresh_ref_m0(self):
        IPm = repo.mod('src.initial_potential')
        IM = repo.mod('src.initial_mesh')
        return IPm.InitialOperator(
            bdr_mesh=self.case.mesh, u0=u0_of(self.u0_kind),
            initial_mesh=getattr(IM, self.curve + 'BoundaryRefined'),
            quad_int=self.cfg['quad_int'], cache_dir=None,
            problem='{}_{}'.format(self.curve, self.u0_kind))

    def replay(self, ops):
        class _C:
            def inc(self, *a):
                pass

            def add(self, *a):
                pass

            def max(self, *a):
                pass

        for op in ops:
            meshsim.apply_op(self.case, op, _C(), {
                'compare': False,
                'model': True
            }, [])

    def select(self, sel):
        """Resolves a selection to a list of elements (None = default)."""
        kind = sel['kind']
        mesh = self.case.mesh
        if kind == 'none':
            return None
        leaves = canon_leaves(mesh)
        n = len(leaves)
        if kind == 'all':
            return list(mesh.leaf_elements)
        if kind == 'box':
            t0, t1, x0, x1 = sel['box']
            return [
                e for e in leaves
                if t0 <= e.time_interval[0] and e.time_interval[1] <= t1
                and x0 <= e.space_interval[0] and e.space_interval[1] <= x1
            ]
        if kind == 'perm':
            rng = stream(sel['seed'], 'perm')
            out = list(leaves)
            rng.shuffle(out)
            return out
        idx = []
        for i in sel['idx']:
            if i % n not in idx:
                idx.append(i % n)
        sub = [leaves[i] for i in idx]
        if kind == 'sub':
            return sub
        if kind == 'quarters':
            HE = repo.mod('src.hierarchical_error_estimator')
            return [
                c for ch in HE.DummyElement.uniform_refinement(sub) for c in ch
            ]
        raise ValueError(kind)


class World:
    """Everything one C17 run owns: scratch directories, sessions, the
    expected content of every complete cache file, reference memo."""
    def __init__(self, run, cov, log):
        seams.install()
        simcrash.install()
        self.run = run
        self.cov = cov
        self.log = log
        self.snap = None
        _run_counter[0] += 1
        self.root = os.path.join(
            scratch_root(), 'run-{}-{}'.format(os.getpid(), _run_counter[0]))
        shutil.rmtree(self.root, ignore_errors=True)
        self.dirs = []
        for k, dc in enumerate(run['dirs']):
            d = os.path.join(self.root, 'd{}'.format(k))
            if not dc.get('missing'):
                os.makedirs(d)
            else:
                os.makedirs(self.root, exist_ok=True)
            self.dirs.append(d)
        self.sessions = {}
        self.expected = {}  # path -> (op key, reference digest, reference)
        self.memo = {}
        self._files = {}
        self._graveyard = []
        simclock.reset()

    def fileno(self, base):
        return self._files.setdefault(base, 'F{}'.format(len(self._files)))

    def close(self):
        simmp.reap_all()
        simdisk.disarm()
        self.cov.inc('sim_time_ms', int(simclock.CLOCK.elapsed() * 1000))
        shutil.rmtree(self.root, ignore_errors=True)

    # ---------------------------------------------------------- reference --
    def ref_matrix(self, s, test, trial, seed=0):
        """R[i, j] = bilform(trial_j, test_i), every pair 'on its own': a
        fresh pristine operator per call, the missing pairs evaluated in a
        seeded random order (so that an evaluation that depends on what the
        operator computed before cannot agree with the path under test by
        sharing its history)."""
        key0 = (s.curve, s.cfg['pw_exact'], s.cfg['quad_order'])
        R = np.zeros((len(test), len(trial)))
        todo = []
        for i, et in enumerate(test):
            gi = geom(et)
            for j, er in enumerate(trial):
                k = (key0, gi, geom(er))
                v = self.memo.get(k)
                if v is None:
                    todo.append((i, j, k))
                else:
                    R[i, j] = v
        if todo:
            stream(seed, 'ref-order').shuffle(todo)
            ref = s.fresh_ref_sl()
            for i, j, k in todo:
                v = self.memo.get(k)
                if v is None:
                    v = float(ref.bilform(trial[j], test[i]))
                    self.memo[k] = v
                R[i, j] = v
        return R

    def ref_vector(self, s, elems, order_seed):
        """linform(e)[0] for every element on its own: a fresh operator per
        element, under another set-order stream."""
        key0 = (s.curve, 'M0', s.u0_kind, s.cfg['quad_int'])
        out = np.zeros(len(elems))
        for j, e in enumerate(elems):
            k = (key0, geom(e))
            v = self.memo.get(k)
            if v is None:
                simset.reseed(H(order_seed, 'ref', j))
                v = float(s.fresh_ref_m0().linform(e)[0])
                self.memo[k] = v
            out[j] = v
        return out

    # ------------------------------------------------------------ oracles --
    def viol(self, cls, site, detail):
        raise Violation(PROP, cls, site, detail)

    def check_files(self, s, opkey, R, site):
        """Every file completely written during this op holds R; no path is
        shared by two ops whose references differ."""
        dg = hashlib.sha256(np.ascontiguousarray(R).tobytes()).hexdigest()
        for path in simdisk.STATE['written'] + simdisk.STATE['loaded']:
            prev = self.expected.get(path)
            if prev is not None and prev[0] != opkey and prev[1] != dg:
                self.viol(
                    'cache-collision', site, {
                        'file': os.path.basename(path),
                        'first_op': prev[0][:3],
                        'second_op': opkey[:3]
                    })
        # files that appeared or changed during the op without passing the
        # save seam (memory maps, open(), ...): if they load, they are cache
        # entries of this op and must hold its result
        seen_written = set(simdisk.STATE['written'])
        for path, dg_file in self.listing().items():
            if path in seen_written or not path.endswith('.npy'):
                continue
            if self.before.get(path) == dg_file:
                continue
            arr = simdisk.try_load(path)
            if arr is None:
                continue
            self.cov.inc('probe.cache_file_written_behind_the_seam')
            if arr.shape != R.shape or not np.array_equal(arr, R):
                self.viol('cache-poisoned', site + '/unseen-write', {
                    'file': self.fileno(os.path.basename(path)),
                    'shape': arr.shape, 'want_shape': R.shape})
            self.expected[path] = (opkey, dg)
        for path in simdisk.STATE['written']:
            if not os.path.exists(path):
                continue  # thrown away with the dead session
            arr = simdisk.try_load(path)
            if arr is None:
                self.viol('cache-file-invalid', site,
                          {'file': os.path.basename(path)})
            if arr.shape != R.shape or not np.array_equal(arr, R):
                self.viol(
                    'cache-poisoned', site, {
                        'file': os.path.basename(path),
                        'shape': arr.shape,
                        'want_shape': R.shape
                    })
            self.expected[path] = (opkey, dg)
        self.cov.add('disk_states_at_load', tuple(
            sorted((os.path.basename(p), os.path.getsize(p))
                   for d in self.dirs if os.path.isdir(d)
                   for p in (os.path.join(d, f) for f in os.listdir(d)))))

    def compare(self, got, R, site, detail):
        if not isinstance(got, np.ndarray):
            self.viol('wrong-type', site, {'type': type(got).__name__})
        if got.shape != R.shape:
            d = dict(detail)
            d.update(shape=got.shape, want=R.shape)
            self.viol('wrong-shape', site, d)
        if not np.array_equal(got, R):
            bad = np.argwhere(got != R)
            d = dict(detail)
            first = tuple(int(x) for x in bad[0])
            d.update(n_bad=int(len(bad)),
                     first=first,
                     got=float(got[first]),
                     want=float(R[first]),
                     transposed=bool(got.shape == R.T.shape
                                     and np.array_equal(got, R.T)))
            self.viol('array-mismatch', site, d)

    # ---------------------------------------------------------------- ops --
    def snapshot(self, kind=None):
        """The process dies now: the disk as it is at this instant is what
        survives (later writes of the dead session are thrown away)."""
        self.snap = os.path.join(self.root, 'snapshot')
        shutil.rmtree(self.snap, ignore_errors=True)
        os.makedirs(self.snap)
        for k, d in enumerate(self.dirs):
            if os.path.isdir(d):
                shutil.copytree(d, os.path.join(self.snap, 'd{}'.format(k)))
        simdisk.STATE['dead'] = True
        if kind in ('bilform', 'linform', 'pool_item'):
            self.cov.inc('fault.crash_at_compute_step.' + kind)

    def restore(self):
        for k, d in enumerate(self.dirs):
            src = os.path.join(self.snap, 'd{}'.format(k))
            shutil.rmtree(d, ignore_errors=True)
            if os.path.isdir(src):
                shutil.copytree(src, d)
        shutil.rmtree(self.snap, ignore_errors=True)
        self.snap = None

    def listing(self):
        out = {}
        for d in self.dirs:
            if os.path.isdir(d):
                for f in os.listdir(d):
                    p = os.path.join(d, f)
                    with open(p, 'rb') as fh:
                        out[p] = hashlib.md5(fh.read()).hexdigest()
        return out

    def arm(self, op):
        f = op.get('faults') or {}
        crash = op.get('crash') or {}
        self.snap = None
        self.before = self.listing()
        simmp.arm(op.get('workers', 4),
                  H(op.get('sched_seed', 0)),
                  fork_fault=bool(f.get('fork')),
                  stats=self.cov,
                  clock=simclock.CLOCK,
                  on_item=simcrash.step)
        simdisk.arm(stats=self.cov,
                    crash_at=crash.get('at_event'),
                    crash_torn=crash.get('torn'),
                    save_fault=f.get('save'),
                    load_fault=f.get('load'),
                    on_crash=self.snapshot)
        simcrash.arm(crash_at=crash.get('at_step'), on_crash=self.snapshot)
        simset.reseed(H(op.get('set_seed', 0)))

    def step(self, op):
        kind = op['op']
        cov = self.cov
        cov.inc('ops')
        cov.inc('opkind.' + kind)
        if kind == 'session':
            s = Session(op, self.dirs, self.run['dirs'])
            self.sessions[op['sid']] = s
            if any(t.curve != s.curve and t.dir_idx == s.dir_idx
                   for t in self.sessions.values()):
                cov.inc('probe.two_curves_one_directory')
            self.log.append(('session', s.curve, len(s.case.mesh.leaf_elements)))
            return
        if kind == 'disk':
            self.disk_op(op)
            return
        s = self.sessions.get(op['sid'])
        if s is None:
            return
        if kind == 'restart':
            extra = s.history[len(s.spec['history']):]
            # the curve objects of dead sessions are kept alive: a curve
            # without __repr__ is identified in cache keys by its address,
            # and CPython would hand a freed address to the next curve
            # object (a latent hazard of the repo outside the five shipped
            # curves; it must not make runs allocator dependent)
            self._graveyard.append(s.case.mesh.gamma_space)
            self.sessions[op['sid']] = Session(s.spec, self.dirs,
                                               self.run['dirs'], extra)
            if any(os.path.isdir(d) and os.listdir(d) for d in self.dirs):
                cov.inc('probe.restart_with_warm_cache')
            self.log.append(('restart', op['sid']))
            return
        if s.dead:
            cov.inc('skipped.op_on_dead_session')
            return
        if kind == 'refine':
            s.replay(op['ops'])
            s.history.extend(op['ops'])
            s._keep.clear()
            s._recycled.clear()
            self.log.append(('refine', len(s.case.mesh.leaf_elements)))
            return
        if kind == 'slm':
            self.op_slm(s, op)
        elif kind == 'm0v':
            self.op_m0v(s, op)
        else:
            raise ValueError(kind)

    def disk_op(self, op):
        d = self.dirs[op['dir'] % len(self.dirs)]
        if not os.path.isdir(d):
            return
        # order of first appearance at the seam, not by name: names carry
        # md5s of reprs that contain an object address for curves without
        # __repr__ (UnitInterval), which differs from process to process
        known = {b: k for k, b in enumerate(self._files)}
        files = sorted((f for f in os.listdir(d) if f.endswith('.npy')),
                       key=lambda f: (known.get(f, 1 << 30), f))
        if op.get('prefix'):
            files = [f for f in files if f.startswith(op['prefix'])] or files
        if not files:
            self.cov.inc('skipped.op_disk_no_file')
            return
        path = os.path.join(d, files[op['file'] % len(files)])
        what = simdisk.damage(path, op['fault'], op.get('cls'), op.get('u', .5))
        self.cov.inc('fault.between_ops.' + what)
        if simdisk.try_load(path) is None:
            self.expected.pop(path, None)
        self.log.append(('disk', what))

    def _finish(self, s, op, site, call, R, opkey, inline):
        """Runs the call under the armed faults and applies the oracle."""
        cov = self.cov
        f = op.get('faults') or {}
        err = None
        got = None
        try:
            got = call()
        except BaseException as ex:  # noqa
            from .core import HarnessTimeout
            if isinstance(ex, (HarnessTimeout, KeyboardInterrupt, SystemExit)):
                raise
            err = ex
        finally:
            alive = simmp.collect()
            if alive:
                self.cov.inc('probe.pool_kept_alive_after_call')
        tr = simdisk.STATE['trace']
        # file names carry md5s (and, for curves without __repr__, object
        # addresses): the event log names files by order of first appearance
        self.log.append((op['op'], R.shape,
                         [(t[1], self.fileno(t[2]), t[3]) for t in tr],
                         simmp.STATE['log']))
        simcrash.arm()
        if simdisk.STATE['dead']:
            # crashed session: whatever it returned is discarded unseen;
            # only the disk -- as it was at the instant of death -- survives
            s.dead = True
            cov.inc('probe.crash')
            if self.snap is not None:
                self.restore()
            self.check_files(s, opkey, R, site + '/crashed')
            return
        if err is not None:
            fork_fired = f.get('fork') and not simmp.STATE['fork_fault'] and (
                isinstance(err, OSError))
            if fork_fired:
                cov.inc('probe.fork_eagain_surfaced')
                if simdisk.STATE['written']:
                    self.viol('cache-after-failure', site, {})
                return
            import traceback
            tb = traceback.extract_tb(err.__traceback__)
            self.viol(
                'exception', site + '/' + type(err).__name__, {
                    'exception': repr(err)[:300],
                    'where': [
                        '{}:{}'.format(x.filename.split('/')[-1], x.lineno)
                        for x in tb if '/src/' in x.filename
                    ][-3:],
                    'disk_trace': [(t[1], self.fileno(t[2]), t[3])
                                   for t in tr],
                })
        hit = bool(simdisk.STATE['loaded'])
        path = ('inline' if inline else
                'hit' if hit else 'pool' if simmp.STATE['log'] else 'serial')
        cov.inc('path.' + path)
        if any(t[3].startswith('miss:') and os.path.basename(t[2]) for t in tr
               if t[1] == 'load'):
            cov.inc('probe.miss_then_recompute')
        self.compare(
            got, R, site + '/' + path, {
                'workers': op.get('workers'),
                'use_mp': op.get('use_mp'),
                'disk_trace': [(t[1], self.fileno(t[2]), t[3]) for t in tr],
                'schedule': simmp.STATE['log'][:1]
            })
        self.check_files(s, opkey, R, site + '/' + path)

    def client_list(self, s, op, side, lst):
        """What clients do with their argument lists between calls: 'same'
        passes the very list object of an earlier call with this selection
        again; 'recycle' overwrites, in place, the list object last passed in
        this argument position (same object, other content)."""
        mode = op.get('client')
        if lst is None or mode is None or op.get('as_tuple'):
            return lst
        import json
        key = json.dumps(op[side], sort_keys=True)
        if mode == 'same':
            if key in s._keep and len(s._keep[key]) == len(lst) and all(
                    a is b for a, b in zip(s._keep[key], lst)):
                self.cov.inc('probe.same_list_object_again')
                lst = s._keep[key]
        else:
            obj = s._recycled.get(side)
            if obj is not None and obj is not lst:
                obj[:] = lst
                lst = obj
                self.cov.inc('probe.list_object_recycled_with_other_content')
        s._keep[key] = lst
        s._recycled[side] = lst
        return lst

    def op_slm(self, s, op):
        test = self.client_list(s, op, 'test', s.select(op['test']))
        trial = self.client_list(s, op, 'trial', s.select(op['trial']))
        if op.get('as_tuple'):
            # any sequence is an element list
            test = tuple(test) if test is not None else None
            trial = tuple(trial) if trial is not None else None
        t_list = test if test is not None else list(s.case.mesh.leaf_elements)
        r_list = trial if trial is not None else t_list
        R = self.ref_matrix(s, t_list, r_list, op.get('sched_seed', 0))
        opkey = ('SL', s.curve, s.dir_idx, tuple(geom(e) for e in t_list),
                 tuple(geom(e) for e in r_list))
        N, M = R.shape
        if N != M:
            self.cov.inc('probe.rectangular')
        self.arm(op)
        self._finish(
            s, op, 'bilform_matrix',
            lambda: s.SL.bilform_matrix(test, trial, use_mp=op['use_mp']), R,
            opkey, N * M < 100)

    def op_m0v(self, s, op):
        if s.M0 is None:
            self.cov.inc('skipped.op_m0_without_domain')
            return
        elems = self.client_list(s, op, 'sel', s.select(op['sel']))
        e_list = elems if elems is not None else list(
            s.case.mesh.leaf_elements)
        unit = {'UnitSquare': 1.0, 'PiSquare': np.pi, 'LShape': 1.0}[s.curve]
        # linform's domain (C08 / C16): dyadic sub-intervals [k/2^l,
        # (k+1)/2^l] of a unit piece with l <= 10; deeper targeting is not
        # promised (on the pi square it fails from l = 21 on next to a
        # corner with coordinate 0, where the relative tolerance vanishes)
        if any(e.h_x > unit * (1 + 1e-12) or e.h_x < unit / 1024 * (1 - 1e-9)
               for e in e_list):
            # element longer than a unit piece: outside linform's precondition
            self.cov.inc('skipped.op_m0_precondition')
            return
        R = self.ref_vector(s, e_list, op.get('set_seed', 0))
        opkey = ('M0', s.curve, s.dir_idx, s.u0_kind,
                 tuple(geom(e) for e in e_list))
        self.arm(op)
        self._finish(
            s, op, 'linform_vector',
            lambda: s.M0.linform_vector(elems=elems, use_mp=op['use_mp']), R,
            opkey, False)


def execute(run, cov, log):
    w = World(run, cov, log)
    try:
        for op in run['ops']:
            try:
                w.step(op)
            except meshsim.Finding as f:
                raise SkipRun('foreign-mesh-' + f.kind)
    finally:
        w.close()
    if any(o['op'] in ('slm', 'm0v') for o in run['ops']):
        cov.add('nontrivial_runs', H(run))


# --------------------------------------------------------------------------
# generation
# --------------------------------------------------------------------------
def gen_history(rng, curve, n_target, graded=False, time=None, space=None):
    """Seeded bisection history on a scratch mesh (generation time only)
    reaching about n_target leaves."""
    config = {'kind': 'param', 'curve': curve, 'space': space, 'time': time}
    case = meshsim.MeshCase(config)
    if curve == 'LShape':
        for e in list(case.mesh.leaf_elements):
            if e.h_x > 1:
                case.mesh.refine_space(e)
        case.model.adopt(case.impl_boxes())
    mm = case.model
    ops = []
    if graded:
        # mesh graded towards one point (a few steps right of a break point
        # or of the seam, optionally also towards a time): deep levels give
        # elements whose coordinates differ only in late digits -- the
        # adversarial input for anything that keys on printed coordinates
        from .refmesh import S
        col = rng.randrange(mm.n_x)
        px = col * S + rng.choice([1, 1, S - 1, S // 2 + 1])
        pt_t = rng.choice([1, mm.n_t * S - 1, S // 2 + 1])
        depth = rng.choice([10, 13, 16, 18, 19, 20, 21, 22])
        if graded == 'deep':
            depth = rng.choice([20, 21, 22])
            col = rng.randrange(1, mm.n_x) if mm.n_x > 1 else 0
            px = col * S + rng.choice([1, 1, mm.n_x * S - col * S - 1
                                       if mm.n_x == 1 else 1])
            pt_t = rng.choice([S // 2 + 1, mm.n_t * S - 1])
        for k in range(depth):
            ax = 1 if rng.random() < 0.85 else 0
            op = {'op': 'bisect', 'pt': [pt_t, px], 'axis': ax}
            meshsim.model_apply(case, mm, op, 4000)
            ops.append(op)
        return ops, len(mm.leaves)
    if rng.random() < 0.5 and len(mm.leaves) * 4 <= n_target:
        ops.append({'op': 'uniform'})
        meshsim.model_apply(case, mm, ops[-1], 4000)
    guard = 0
    while len(mm.leaves) < n_target and guard < 200:
        guard += 1
        lf = rng.choice(mm.canonical())
        op = {
            'op': 'bisect',
            'pt': [(lf[0] + lf[1]) // 2, (lf[2] + lf[3]) // 2],
            'axis': rng.choice([0, 1, 1, 2])
        }
        trial = mm.copy()
        meshsim.model_apply(case, trial, op, 4000)
        if len(trial.leaves) > n_target + 8:
            continue
        mm.adopt(trial.leaves)
        ops.append(op)
    return ops, len(mm.leaves)


TORN = list(simdisk.TORN_CLASSES)


def gen_sel(rng, n, want, allow_none=True):
    """A selection of about `want` elements out of n leaves."""
    r = rng.random()
    if want >= n:
        if r < 0.3 and allow_none:
            return {'kind': 'none'}, n
        if r < 0.6:
            return {'kind': 'all'}, n
        return {'kind': 'perm', 'seed': rng.randrange(1 << 30)}, n
    idx = rng.sample(range(n), want)
    if r < 0.25 and want >= 3:
        k = max(1, want // 4)
        return {'kind': 'quarters', 'idx': idx[:k]}, 4 * k
    return {'kind': 'sub', 'idx': idx}, want


def gen_faults(rng, params, use_mp):
    f = {}
    if not params.get('faults', True):
        return None, None
    crash = None
    r = rng.random()
    if r < 0.12:
        f['save'] = {'kind': 'torn', 'cls': rng.choice(TORN),
                     'u': rng.random()}
    elif r < 0.17:
        f['save'] = {'kind': 'lost'}
    elif r < 0.27:
        f['save'] = {
            'kind': 'raise',
            'errno': rng.choice(['ENOSPC', 'EIO', 'ENOENT', 'EACCES']),
            'cls': rng.choice(['none', 'empty', 'header_only', 'half']),
            'u': rng.random()
        }
    if rng.random() < 0.1:
        f['load'] = rng.choice(['EIO', 'EACCES', 'ENOENT'])
    if use_mp and rng.random() < 0.04:
        f['fork'] = True
    r = rng.random()
    if r < 0.10:
        crash = {
            'at_event': rng.choice([1, 2, 2, 2]),
            'torn': {
                'cls': rng.choice(TORN + ['none', 'complete']),
                'u': rng.random()
            }
        }
    elif r < 0.17:
        # the process dies between two I/O events, after this many pair /
        # element evaluations or pool results
        crash = {'at_step': rng.choice([1, 2, 3, 5, 8, 13, 30, 80, 150])}
    return (f or None), crash


def gen_big(seed, params):
    """Element lists beyond a thousand entries (the print threshold of
    array reprs, and where anything keyed on a digest of a *prefix* of the
    list shows): two calls of equal shape against one cache directory whose
    long lists agree at both ends and differ in the interior -- two interior
    positions swapped, interior elements replaced, or another sample between
    the same first and last entries.  Narrow rectangles (long x 1..3) keep
    the cost at a few thousand pair evaluations."""
    rng = stream(seed, 'workload-big')
    dirs = [{'pw_exact': rng.random() < 0.4, 'quad_order': 4, 'quad_int': 2,
             'u0': rng.choice(['one', 'sine', 'poly']), 'missing': False}]
    curve = rng.choice(['UnitSquare', 'PiSquare', 'LShape', 'Circle',
                        'UnitInterval'])
    hist = []
    while True:
        spec = {'op': 'session', 'sid': 0, 'curve': curve, 'history': hist,
                'dir': 0}
        tmp = Session(spec, ['/nonexistent'], dirs)
        n = len(tmp.case.mesh.leaf_elements)
        if n >= 1024:
            break
        hist = hist + [{'op': 'uniform'}]
    ops = [spec]
    L = rng.randint(1001, min(n, 1100))
    A = rng.sample(range(n), L)
    style = rng.random()
    B = list(A)
    lo, hi = 8, L - 8
    if style < 0.35:
        i, j = rng.sample(range(lo, hi), 2)
        B[i], B[j] = B[j], B[i]
    elif style < 0.7:
        rest = [q for q in range(n) if q not in set(A)]
        for i in rng.sample(range(lo, hi), min(len(rest), rng.randint(1, 40))):
            B[i] = rest.pop(rng.randrange(len(rest)))
    else:
        mid = [q for q in range(n) if q not in set(A[:lo] + A[hi:])]
        B = A[:lo] + rng.sample(mid, hi - lo) + A[hi:]
    T = {'kind': 'sub', 'idx': rng.sample(range(n), rng.randint(1, 3))}
    side = rng.random()
    vector = side > 0.75 and curve in WITH_DOMAIN
    seq = [A, B] + ([A] if rng.random() < 0.4 else [])
    for k, idx in enumerate(seq):
        base = {'sid': 0, 'use_mp': rng.random() < 0.5,
                'workers': rng.randint(1, 16),
                'sched_seed': rng.randrange(1 << 30),
                'set_seed': rng.randrange(1 << 30)}
        sel = {'kind': 'sub', 'idx': idx}
        if vector:
            ops.append(dict(base, op='m0v', sel=sel))
        elif side < 0.45:
            ops.append(dict(base, op='slm', test=sel, trial=T))
        else:
            ops.append(dict(base, op='slm', test=T, trial=sel))
        if k == 0 and rng.random() < 0.3:
            ops.append({'op': 'restart', 'sid': 0})
    return {'dirs': dirs, 'ops': ops}


def gen_run(seed, params):
    seams.install()
    if stream(seed, 'scenario').random() < params.get('p_big', 0.0):
        return gen_big(seed, params)
    rng = stream(seed, 'workload')
    n_dirs = 1 if rng.random() < 0.7 else 2
    dirs = []
    for _ in range(n_dirs):
        dirs.append({
            'pw_exact': rng.random() < 0.4,
            'quad_order': rng.choice([4, 6, 8, 12]),
            'quad_int': rng.choice([2, 3, 4]),
            'u0': rng.choice(['one', 'sine', 'poly']),
            'missing': rng.random() < 0.04,
        })
    ops = []
    sess = {}  # sid -> dict(curve, n, dir, pool of selections)
    twin = rng.random() < params.get('p_twin', 0.15)
    # the two curves of a twin run: two named curves whose element reprs
    # coincide on [2, 4], or two ad-hoc polygons of the generic class (only
    # their object identity tells them apart) with equal side lengths
    twin_pair = ['UnitSquare', 'LShape'] if rng.random() < 0.6 else [
        'PolyA', 'PolyB']
    twin_problems = (not twin) and rng.random() < params.get(
        'p_twin_problems', 0.09)
    # ... either in one directory (two problems, one operator configuration)
    # or in two directories with different operator configurations (two
    # operators in one process on identical meshes)
    twin_two_dirs = twin_problems and rng.random() < 0.5
    if twin_two_dirs and n_dirs == 1:
        n_dirs = 2
        dirs.append({
            'pw_exact': not dirs[0]['pw_exact'],
            'quad_order': rng.choice(
                [q for q in (4, 6, 8, 12) if q != dirs[0]['quad_order']]),
            'quad_int': rng.choice([2, 3, 4]),
            'u0': rng.choice(['one', 'sine', 'poly']),
            'missing': False,
        })
    lookalike = (not twin) and (not twin_problems) and rng.random() < (
        params.get('p_lookalike', 0.08))
    n_sessions = 2 if twin or rng.random() < 0.25 else 1
    if lookalike:
        n_sessions = 1
    if twin_problems:
        n_sessions = 2
    graded = False
    for sid in range(n_sessions):
        if twin:
            curve = twin_pair[sid]
            hist = [{'op': 'uniform'}, {'op': 'uniform'}]
            # equal reprs on the shared parameter range need equal histories
            if sid == 1:
                hist = sess[0]['hist']
            d = 0
        elif twin_problems:
            # two problems on one domain sharing one directory, as two driver
            # invocations do: only the label keeps their load vectors apart
            curve = sess[0]['curve'] if sid else rng.choice(list(WITH_DOMAIN))
            hist = sess[0]['hist'] if sid else gen_history(
                rng, curve, rng.choice([6, 8, 10, 12]))[0]
            d = sid if twin_two_dirs else 0
        else:
            curve = rng.choice(params.get(
                'curves',
                ['UnitSquare', 'PiSquare', 'LShape', 'Circle', 'UnitInterval']))
            graded = rng.random() < params.get('p_graded', 0.25)
            if lookalike:
                graded = 'deep'
                curve = rng.choice(['UnitSquare', 'LShape', 'PiSquare',
                                    'UnitInterval', 'Circle'])
            hist, _ = gen_history(rng, curve, rng.choice([10, 12, 16, 24, 36]),
                                  graded=graded)
            d = rng.randrange(n_dirs)
        spec = {'op': 'session', 'sid': sid, 'curve': curve, 'history': hist,
                'dir': d}
        if twin:
            # float time grid on both: the int 0 / 1 of the default grid
            # would print differently from bisection midpoints
            spec['time'] = [0.0, 1.0]
        if twin_problems:
            spec['u0'] = ['one', 'sine'][sid] if rng.random() < 0.5 else [
                'poly', 'one'][sid]
        ops.append(spec)
        # size of the mesh (generation time replay)
        tmp = Session(spec, ['/nonexistent'] * n_dirs, dirs)
        leaves = canon_leaves(tmp.case.mesh)
        sess[sid] = {'curve': curve, 'n': len(leaves), 'hist': hist,
                     'sels': [], 'leaves': [geom(e) for e in leaves],
                     'graded': (not twin) and graded}
    n_ops = rng.randint(3, params.get('max_ops', 10))
    if rng.random() < params.get('p_long', 0.03):
        n_ops = rng.randint(20, 40)  # state accumulating over many calls
    workers_session = rng.randint(1, 16)
    dead = set()
    if lookalike:
        # two calls whose lists have equal lengths and differ in one element
        # only: the deepest leaf against its neighbour (coordinates agree in
        # all but the last digits)
        S0 = sess[0]
        n, g = S0['n'], S0['leaves']
        deep = sorted(range(n), key=lambda q: (
            (g[q][1][1] - g[q][1][0]) * (g[q][0][1] - g[q][0][0]), q))
        k = deep[0]
        others = [i for i in rng.sample(range(n), min(n, 14)) if i != k]
        twin_k = next((c for c in (k + 1, k - 1, k + 2, k - 2)
                       if 0 <= c < n and c not in others), None)
        if twin_k is not None and len(others) >= 9:
            others = [i for i in others if i != twin_k][:rng.randint(9, 12)]
            A = {'kind': 'sub', 'idx': [k] + others}
            B = {'kind': 'sub', 'idx': [twin_k] + others}
            T = {'kind': 'sub', 'idx': rng.sample(range(n), min(n, 10))}
            side = rng.random()
            for first, second in ((A, B), ):
                for sel in (first, second):
                    base = {'sid': 0, 'use_mp': rng.random() < 0.5,
                            'workers': rng.randint(1, 16),
                            'sched_seed': rng.randrange(1 << 30),
                            'set_seed': rng.randrange(1 << 30)}
                    if side < 0.45:
                        ops.append(dict(base, op='slm', test=sel, trial=T))
                    elif side < 0.9:
                        ops.append(dict(base, op='slm', test=T, trial=sel))
                    elif S0['curve'] in WITH_DOMAIN:
                        ops.append(dict(base, op='m0v', sel=dict(
                            sel, idx=sel['idx'][:4])))
            S0['sels'].append((A, T))
    for _ in range(n_ops):
        sid = rng.randrange(n_sessions)
        S = sess[sid]
        n = S['n']
        if sid in dead:
            ops.append({'op': 'restart', 'sid': sid})
            dead.discard(sid)
            continue
        r = rng.random()
        if r < 0.08:
            ops.append({
                'op': 'disk',
                'dir': rng.randrange(n_dirs),
                'file': rng.randrange(64),
                'fault': rng.choice(
                    ['delete', 'truncate', 'truncate', 'truncate',
                     'garble_magic', 'garble_header']),
                'cls': rng.choice(TORN),
                'u': rng.random()
            })
            continue
        if r < 0.13:
            ops.append({'op': 'restart', 'sid': sid})
            continue
        if r < 0.18 and not twin and n < 60:
            k = rng.randint(1, 3)
            tmp_spec = {'op': 'session', 'sid': sid, 'curve': S['curve'],
                        'history': S['hist'], 'dir': 0}
            tmp = Session(tmp_spec, ['/nonexistent'] * n_dirs, dirs)
            mm = tmp.case.model
            new_ops = []
            for _ in range(k):
                lf = rng.choice(mm.canonical())
                op = {'op': 'bisect',
                      'pt': [(lf[0] + lf[1]) // 2, (lf[2] + lf[3]) // 2],
                      'axis': rng.choice([0, 1])}
                meshsim.model_apply(tmp.case, mm, op, 4000)
                new_ops.append(op)
            ops.append({'op': 'refine', 'sid': sid, 'ops': new_ops})
            S['hist'] = S['hist'] + new_ops
            tmp = Session({'op': 'session', 'sid': sid, 'curve': S['curve'],
                           'history': S['hist'], 'dir': 0},
                          ['/nonexistent'] * n_dirs, dirs)
            S['n'] = len(tmp.case.mesh.leaf_elements)
            S['leaves'] = [geom(e) for e in canon_leaves(tmp.case.mesh)]
            S['sels'] = []
            continue
        use_mp = rng.random() < 0.65
        workers = workers_session if rng.random() < 0.5 else rng.randint(1, 16)
        faults, crash = gen_faults(rng, params, use_mp)
        base = {
            'sid': sid,
            'use_mp': use_mp,
            'workers': workers,
            'sched_seed': rng.randrange(1 << 30),
            'set_seed': rng.randrange(1 << 30),
        }
        if faults:
            base['faults'] = faults
        if crash:
            base['crash'] = crash
            dead.add(sid)
        if (r < 0.18 + params.get('p_m0', 0.2) or
                (twin_problems and r < 0.75)) and S['curve'] in WITH_DOMAIN:
            m = rng.choice([1, 2, 3, 5, 8])
            other = sess[1 - sid]['sels'] if twin_problems else None
            if other and rng.random() < 0.7:
                sel = rng.choice(other)[0]
            elif S['sels'] and rng.random() < 0.5:
                prev = rng.choice(S['sels'])
                sel = prev[0]
            else:
                sel, _ = gen_sel(rng, n, min(m, n), allow_none=n <= 8)
            op = dict(base, op='m0v', sel=sel)
            S['sels'].append((sel, sel))
            ops.append(op)
            continue
        # single-layer matrix op: sizes on both sides of N*M = 100
        reuse = S['sels'] and rng.random()
        if twin_problems and sess[1 - sid]['sels'] and rng.random() < 0.7:
            # the same call on the twin session (other operator object)
            test, trial = rng.choice(sess[1 - sid]['sels'])
            S['sels'].append((test, trial))
            ops.append(dict(base, op='slm', test=test, trial=trial))
            continue
        if reuse and reuse < 0.35:
            test, trial = rng.choice(S['sels'])
        elif reuse and reuse < 0.55:
            test, _ = rng.choice(S['sels'])
            trial, _ = gen_sel(rng, n, rng.choice([n, max(1, n // 2), 10]))
            if test['kind'] in ('sub', 'quarters') and rng.random() < 0.7:
                # same length, different elements: the classic key collision
                k = len(test['idx'])
                trial = {'kind': test['kind'], 'idx': rng.sample(range(n), min(k, n))}
        elif reuse and reuse < 0.65:
            _, trial = rng.choice(S['sels'])
            test = {'kind': 'perm', 'seed': rng.randrange(1 << 30)}
        elif reuse and reuse < (0.95 if S.get('graded') else 0.8) and any(
                t['kind'] == 'sub' for t, _ in S['sels']):
            # near-identical list: one element (the smallest) swapped for
            # its neighbour in the canonical order -- same lengths, same
            # curve, coordinates that agree in all but the last digits
            test0, trial = rng.choice(
                [p for p in S['sels'] if p[0]['kind'] == 'sub'])
            idx = [i % n for i in test0['idx']]
            g = S['leaves']
            k = min(range(len(idx)),
                    key=lambda q: (g[idx[q]][1][1] - g[idx[q]][1][0], q))
            for cand in (idx[k] + 1, idx[k] - 1, idx[k] + 2):
                if 0 <= cand < n and cand not in idx:
                    idx = idx[:k] + [cand] + idx[k + 1:]
                    break
            test = {'kind': 'sub', 'idx': idx}
        else:
            style = rng.random()
            if style < 0.2:
                a, b = rng.choice([(9, 11), (3, 33), (7, 14), (5, 19), (9, 9)])
            elif style < 0.5:
                a, b = rng.choice([(10, 10), (4, 25), (20, 5), (11, 10),
                                   (2, 50), (1, n), (n, 1), (3, 34)])
            else:
                a, b = n, n
            test, na = gen_sel(rng, n, min(a, n))
            trial, nb = gen_sel(rng, n, min(b, n),
                                allow_none=test['kind'] == 'none')
            if S.get('graded') and test['kind'] == 'sub':
                # make sure the deepest leaves take part
                g = S['leaves']
                deep = sorted(range(n), key=lambda q: (
                    (g[q][1][1] - g[q][1][0]) * (g[q][0][1] - g[q][0][0]), q))
                keep = deep[:rng.randint(1, 4)]
                rest = [i for i in test['idx'] if i not in keep]
                test = {'kind': 'sub',
                        'idx': (keep + rest)[:max(len(test['idx']), 1)]}
            if test['kind'] == 'none' and rng.random() < 0.5:
                trial = {'kind': 'none'}
            if twin:
                # elements with coinciding reprs on both curves: the
                # parameter range [2, 4] (corner on the square, straight on
                # the L-shape), one half of the time axis
                tb = rng.choice([[0.0, 0.5], [0.5, 1.0], [0.25, 0.75]])
                xb = [2.0, 4.0] if twin_pair[0] == 'UnitSquare' else [0.0, 4.0]
                test = {'kind': 'box', 'box': [tb[0], tb[1]] + xb}
                trial = test if rng.random() < 0.6 else {
                    'kind': 'box', 'box': [0.0, 0.5] + xb}
        S['sels'].append((test, trial))
        if rng.random() < 0.08:
            base['as_tuple'] = True
        ops.append(dict(base, op='slm', test=test, trial=trial))
    # what the client does with its list objects between calls (own stream:
    # the runs without this feature stay what they were)
    crng = stream(seed, 'workload-client')
    if crng.random() < params.get('p_client', 0.3):
        for op in ops:
            if op['op'] in ('slm', 'm0v'):
                op['client'] = 'same' if crng.random() < 0.6 else 'recycle'
    return {'dirs': dirs, 'ops': ops}


def shrink_run(run):
    from .core import ddmin_lists
    ops = run['ops']
    n_sess = sum(1 for o in ops if o['op'] == 'session')
    for cand in ddmin_lists(ops):
        if any(o['op'] == 'session' for o in cand):
            yield {'dirs': run['dirs'], 'ops': cand}
    for i, op in enumerate(ops):
        for key in ('faults', 'crash'):
            if key in op:
                o = dict(op)
                del o[key]
                yield {'dirs': run['dirs'], 'ops': ops[:i] + [o] + ops[i + 1:]}
        if op.get('use_mp') and op.get('workers', 1) > 2:
            o = dict(op)
            o['workers'] = 2
            yield {'dirs': run['dirs'], 'ops': ops[:i] + [o] + ops[i + 1:]}
        if op['op'] == 'session' and len(op['history']) > 1:
            for h in ddmin_lists(op['history']):
                o = dict(op)
                o['history'] = h
                yield {'dirs': run['dirs'],
                       'ops': ops[:i] + [o] + ops[i + 1:]}

"""SimMP: stands in for the `multiprocessing` module as seen by the repo.

Pool(n) really os.fork()s n workers at construction (so the repo's
hand-over-by-global trick, the forked snapshot and worker-local state are
exercised for real; callables and results cross a pipe pickled).  What is
simulated is the pool's scheduler: which worker gets which chunk, how long
each chunk takes in virtual time (so in which order results complete), and
faults (fork EAGAIN, stalled worker).  Every decision comes from the PRNG
stream armed for the current op."""
import errno
import math
import os
import pickle
import random
import struct
import sys
import types
import weakref

import multiprocessing as _real_mp

STATE = {
    'workers': 4,  # what cpu_count() reports
    'rng': random.Random(0),  # schedule stream of the current op
    'fork_fault': False,  # next Pool() construction fails with EAGAIN
    'stall_p': 0.1,
    'pools': [],  # live pools (reaped by the harness after each op)
    'log': [],  # schedule records of the current op
    'stats': None,  # Coverage-like object with inc()/add()
    'clock': None,
}


def arm(workers, sched_seed, fork_fault=False, stats=None, clock=None,
        on_item=None):
    STATE['on_item'] = on_item
    STATE['workers'] = workers
    STATE['rng'] = random.Random(sched_seed)
    STATE['fork_fault'] = fork_fault
    STATE['log'] = []
    STATE['stats'] = stats
    STATE['clock'] = clock


def _inc(name, k=1):
    if STATE['stats'] is not None:
        STATE['stats'].inc(name, k)


def _write_msg(fd, obj):
    data = pickle.dumps(obj, protocol=pickle.HIGHEST_PROTOCOL)
    data = struct.pack('<Q', len(data)) + data
    off = 0
    while off < len(data):
        off += os.write(fd, data[off:off + (1 << 16)])


def _read_exact(fd, n):
    buf = b''
    while len(buf) < n:
        chunk = os.read(fd, n - len(buf))
        if not chunk:
            raise EOFError
        buf += chunk
    return buf


def _read_msg(fd):
    n = struct.unpack('<Q', _read_exact(fd, 8))[0]
    return pickle.loads(_read_exact(fd, n))


class _Worker:
    def __init__(self, idx, pool, initializer, initargs):
        self.idx = idx
        p2c_r, p2c_w = os.pipe()
        c2p_r, c2p_w = os.pipe()
        sys.stdout.flush()
        sys.stderr.flush()
        pid = os.fork()
        if pid == 0:
            # ---- worker process: a snapshot of the parent as of now
            code = 0
            try:
                os.close(p2c_w)
                os.close(c2p_r)
                # close the parent-side ends of every other live worker,
                # otherwise their EOF never arrives
                for ref in STATE['pools']:
                    pl = ref()
                    if pl is None:
                        continue
                    for w in pl._workers:
                        for fd in (w.to_fd, w.from_fd):
                            try:
                                os.close(fd)
                            except OSError:
                                pass
                for w in pool._workers:
                    for fd in (w.to_fd, w.from_fd):
                        try:
                            os.close(fd)
                        except OSError:
                            pass
                STATE['in_worker'] = True
                if initializer is not None:
                    initializer(*initargs)
                while True:
                    try:
                        msg = _read_msg(p2c_r)
                    except EOFError:
                        break
                    kind, func_bytes, chunk, star = msg
                    try:
                        func = pickle.loads(func_bytes)
                        if star:
                            res = [func(*a) for a in chunk]
                        else:
                            res = [func(a) for a in chunk]
                        out = (True, res)
                    except BaseException as ex:  # noqa
                        try:
                            pickle.dumps(ex)
                            out = (False, ex)
                        except Exception:
                            out = (False, RuntimeError(repr(ex)))
                    try:
                        _write_msg(c2p_w, out)
                    except Exception as ex:
                        _write_msg(c2p_w,
                                   (False, RuntimeError('unpicklable result: '
                                                        + repr(ex))))
            except BaseException:  # noqa
                code = 1
            finally:
                os._exit(code)
        # ---- parent
        os.close(p2c_r)
        os.close(c2p_w)
        self.pid = pid
        self.to_fd = p2c_w
        self.from_fd = c2p_r
        self.tasks = 0

    def run(self, func_bytes, chunk, star):
        _write_msg(self.to_fd, ('task', func_bytes, chunk, star))
        self.tasks += 1
        return _read_msg(self.from_fd)

    def stop(self):
        for fd in (self.to_fd, self.from_fd):
            try:
                os.close(fd)
            except OSError:
                pass
        try:
            os.waitpid(self.pid, 0)
        except ChildProcessError:
            pass


class _Result:
    """AsyncResult / MapResult."""
    def __init__(self, compute, single=False):
        self._compute = compute
        self._done = False
        self._single = single

    def _force(self):
        if not self._done:
            try:
                self._value = (True, self._compute())
            except BaseException as ex:  # noqa
                self._value = (False, ex)
            self._done = True

    def start(self, callback=None, error_callback=None):
        """Asynchronous submissions complete (in virtual time) before the
        submitter looks again: the task runs now, callbacks fire now."""
        self._force()
        ok, v = self._value
        if ok and callback is not None:
            callback(v[0] if self._single else v)
        if not ok and error_callback is not None:
            error_callback(v)
        return self

    def get(self, timeout=None):
        self._force()
        ok, v = self._value
        if not ok:
            raise v
        return v[0] if self._single else v

    def wait(self, timeout=None):
        self._force()

    def ready(self):
        self._force()
        return True

    def successful(self):
        self._force()
        return self._value[0]


class Pool:
    def __init__(self,
                 processes=None,
                 initializer=None,
                 initargs=(),
                 maxtasksperchild=None,
                 context=None):
        if STATE.get('in_worker'):
            raise AssertionError('daemonic processes are not allowed to have '
                                 'children')
        if processes is None:
            processes = cpu_count()
        if processes < 1:
            raise ValueError('Number of processes must be at least 1')
        self._n = processes
        self._workers = []
        self._closed = False
        self._terminated = False
        self._initializer = initializer
        self._initargs = initargs
        self._maxtasks = maxtasksperchild
        if STATE['fork_fault']:
            STATE['fork_fault'] = False
            _inc('fault.fork_eagain')
            raise OSError(errno.EAGAIN, 'Resource temporarily unavailable')
        _inc('pool.constructed')
        _inc('workers_hist.{:02d}'.format(processes))
        for k in range(processes):
            self._workers.append(_Worker(k, self, initializer, initargs))
        # weak: a pool nobody references any more is finalised (workers
        # reaped) like CPython's; one the code keeps alive stays alive
        STATE['pools'].append(weakref.ref(self))

    # -------------------------------------------------------- scheduling --
    def _schedule(self, n_chunks):
        """Seeded discrete-event schedule: chunk k goes to the worker that
        is idle first in virtual time.  Returns (assignment, completion
        order)."""
        rng = STATE['rng']
        free = [rng.random() * 1e-3 for _ in range(self._n)]
        stalled = [rng.random() < STATE['stall_p'] for _ in range(self._n)]
        assign, done_at = [], []
        for k in range(n_chunks):
            w = min(range(self._n), key=lambda i: (free[i], i))
            dur = rng.expovariate(1.0) * (50.0 if stalled[w] else 1.0)
            free[w] += dur
            assign.append(w)
            done_at.append(free[w])
        order = sorted(range(n_chunks), key=lambda k: (done_at[k], k))
        if any(stalled):
            _inc('probe.pool_stalled_worker')
        if order != list(range(n_chunks)):
            _inc('probe.pool_out_of_order_completion')
        if self._n > n_chunks:
            _inc('probe.pool_more_workers_than_chunks')
        if self._n == 1:
            _inc('probe.pool_one_worker')
        clock = STATE.get('clock')
        if clock is not None and done_at:
            clock.advance(max(done_at))
        if STATE['stats'] is not None:
            STATE['stats'].add('pool_interleavings',
                               (tuple(assign), tuple(order)))
        STATE['log'].append({
            'workers': self._n,
            'chunks': n_chunks,
            'assign': assign,
            'order': order
        })
        return assign, order

    def _run(self, func, iterable, chunksize, star=False):
        """Executes all chunks; returns (list of chunk results, completion
        order of the chunks)."""
        if self._closed or self._terminated:
            raise ValueError('Pool not running')
        items = list(iterable)
        if chunksize is None:
            chunksize, extra = divmod(len(items), self._n * 4)
            if extra:
                chunksize += 1
        if chunksize < 1:
            chunksize = 1 if not items else chunksize
            if chunksize < 1:
                raise ValueError('Chunksize must be 1+, not {0:n}'.format(
                    chunksize))
        func_bytes = pickle.dumps(func)
        chunks = [
            items[i:i + chunksize] for i in range(0, len(items), chunksize)
        ]
        assign, order = self._schedule(len(chunks))
        results = [None] * len(chunks)
        # per worker, tasks run in assignment order; across workers the
        # real-time order is irrelevant (separate processes), so walk the
        # chunks in completion order
        per_worker_next = {}
        for k in sorted(range(len(chunks)), key=lambda k: (assign[k], k)):
            w = self._workers[assign[k]]
            if self._maxtasks and w.tasks >= self._maxtasks:
                w.stop()
                w = self._workers[assign[k]] = _Worker(
                    assign[k], self, self._initializer, self._initargs)
            results[k] = w.run(func_bytes, chunks[k], star)
        _inc('pool.chunks', len(chunks))
        _inc('pool.tasks', len(items))
        return results, order

    @staticmethod
    def _flatten(results, indices):
        out = []
        for k in indices:
            ok, val = results[k]
            if not ok:
                raise val
            out.extend(val)
        return out

    # ------------------------------------------------------------- API --
    def map(self, func, iterable, chunksize=None):
        results, _ = self._run(func, iterable, chunksize)
        return self._flatten(results, range(len(results)))

    def starmap(self, func, iterable, chunksize=None):
        results, _ = self._run(func, iterable, chunksize, star=True)
        return self._flatten(results, range(len(results)))

    def imap(self, func, iterable, chunksize=1):
        return self._lazy(func, iterable, chunksize, ordered=True)

    def imap_unordered(self, func, iterable, chunksize=1):
        return self._lazy(func, iterable, chunksize, ordered=False)

    def _lazy(self, func, iterable, chunksize, ordered):
        pool = self  # the iterator keeps the pool alive, like CPython >= 3.8
        if chunksize < 1:
            raise ValueError('Chunksize must be 1+, not {0:n}'.format(
                chunksize))
        state = {}

        def gen():
            results, order = pool._run(func, iterable, chunksize)
            idx = range(len(results)) if ordered else order
            for k in idx:
                ok, val = results[k]
                if not ok:
                    raise val
                for v in val:
                    yield v
                    # the consumer has taken this result: a possible crash
                    # instant between two I/O events
                    if STATE.get('on_item') is not None:
                        STATE['on_item']('pool_item')

        return gen()

    def apply(self, func, args=(), kwds={}):
        return self.apply_async(func, args, kwds).get()

    def apply_async(self,
                    func,
                    args=(),
                    kwds={},
                    callback=None,
                    error_callback=None):
        def compute():
            results, _ = self._run(_Apply(func, kwds), [tuple(args)], 1,
                                   star=True)
            return self._flatten(results, [0])

        return _Result(compute, single=True).start(callback, error_callback)

    def map_async(self,
                  func,
                  iterable,
                  chunksize=None,
                  callback=None,
                  error_callback=None):
        items = list(iterable)
        return _Result(lambda: self.map(func, items, chunksize)).start(
            callback, error_callback)

    def starmap_async(self,
                      func,
                      iterable,
                      chunksize=None,
                      callback=None,
                      error_callback=None):
        items = list(iterable)
        return _Result(lambda: self.starmap(func, items, chunksize)).start(
            callback, error_callback)

    def close(self):
        self._closed = True

    def terminate(self):
        self._terminated = True
        self._reap()

    def join(self):
        if not (self._closed or self._terminated):
            raise ValueError('Pool is still running')
        self._reap()

    def _reap(self):
        for w in self._workers:
            w.stop()
        self._workers = []
        STATE['pools'] = [r for r in STATE['pools']
                          if r() is not None and r() is not self]

    def __enter__(self):
        return self

    def __exit__(self, *a):
        self.terminate()

    def __del__(self):
        try:
            if self._workers and not STATE.get('in_worker'):
                self._reap()
        except Exception:
            pass


class _Apply:
    def __init__(self, func, kwds):
        self.func = func
        self.kwds = kwds

    def __call__(self, *args):
        return self.func(*args, **self.kwds)


def reap_all():
    """End of a run (or of a harness-side step that must leave no process
    behind): every remaining worker is reaped.  Returns how many pools were
    still alive."""
    n = 0
    for ref in list(STATE['pools']):
        p = ref()
        if p is None:
            continue
        if p._workers:
            n += 1
        p._reap()
    STATE['pools'] = []
    return n


def collect():
    """After an op: pools that are no longer referenced are finalised by
    reference counting already; drop dead weak references."""
    STATE['pools'] = [r for r in STATE['pools'] if r() is not None]
    return sum(1 for r in STATE['pools'] if r()._workers)


def cpu_count():
    return STATE['workers']


_start_method = [None]


def set_start_method(method, force=False):
    if _start_method[0] is not None and not force:
        raise RuntimeError('context has already been set')
    _start_method[0] = method


def get_start_method(allow_none=False):
    return _start_method[0] or 'fork'


class _Context:
    """multiprocessing context: Pool and cpu_count are simulated, everything
    else (Process, Queue, locks, ...) is the real context's."""
    def __init__(self, method=None):
        self._method = method

    def Pool(self, *a, **k):
        return Pool(*a, **k)

    def cpu_count(self):
        return cpu_count()

    def get_start_method(self, allow_none=False):
        return self._method or 'fork'

    def __getattr__(self, name):
        return getattr(_real_mp.get_context(self._method), name)


def get_context(method=None):
    return _Context(method)


def build_module():
    m = types.ModuleType('multiprocessing')
    m.__dict__['__sim__'] = True
    m.Pool = Pool
    m.cpu_count = cpu_count
    m.set_start_method = set_start_method
    m.get_start_method = get_start_method
    m.get_context = get_context
    m.pool = types.SimpleNamespace(Pool=Pool)
    m.__path__ = getattr(_real_mp, '__path__', [])

    def __getattr__(name):
        return getattr(_real_mp, name)

    m.__getattr__ = __getattr__
    return m


MODULE = build_module()

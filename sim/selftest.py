"""setup / determinism / sensitivity self-tests of the framework."""
import os
import sys


def setup():
    """Nothing is built or fetched: verify the interpreter, numpy/scipy and
    that the repository under test imports from $VERIF_REPO."""
    from . import repo
    import numpy
    import scipy
    repo.ensure_path()
    for m in ('src.mesh', 'src.initial_mesh', 'src.single_layer',
              'src.initial_potential', 'src.error_estimator',
              'src.h_h2_error_estimator', 'src.hierarchical_error_estimator',
              'src.parametrization', 'src.norms'):
        repo.mod(m)
    os.makedirs(os.environ.get('VERIF_SCRATCH', '/var/tmp/stbem-verif'),
                exist_ok=True)
    print('setup ok: python {} numpy {} scipy {} repo {}'.format(
        sys.version.split()[0], numpy.__version__, scipy.__version__,
        repo.REPO))
    return 0


def digests(prop, seed, lo, hi, reverse):
    """Event-log digests of runs lo..hi-1 of a property, executed
    sequentially in this process (optionally in reverse order)."""
    import importlib
    from . import core
    check = importlib.import_module('checks.' + prop.lower())
    cfg = dict(check.TIERS['quick'])
    idx = list(range(lo, hi))
    if reverse:
        idx.reverse()
    out = {}
    for i in idx:
        seed_i = core.H(seed, check.PROPERTY, i)
        run, status, payload, dg, _ = core.run_isolated(
            check, cfg, seed_i, None, cfg.get('wall_cap', 300))
        sig = ''
        if status == 'violation':
            sig = payload['class'] + '/' + payload['site']
        out[i] = [core.digest(run)[:16], status, sig, dg[:16]]
    return out


def determinism(args):
    """Same seed -> same execution: every run is executed (a) in order, (b)
    in reverse order in another process (state leaking from one run into the
    next would show), (c) in a fresh interpreter under two other
    PYTHONHASHSEEDs; the generated op lists, outcomes and event-log digests
    must all be equal.  Harness --jobs 1 vs 16 is compared on the batch
    digest."""
    import json
    import subprocess
    from . import core
    props = (args.props.split(',') if args.props else
             ['C02', 'C10', 'C06', 'C19', 'C18', 'C16', 'C17', 'C09', 'C20',
              'C03'])
    n = args.runs or 48
    here = os.path.join(core.VERIF, 'check')
    bad = 0
    total = 0
    for prop in props:
        variants = []
        for (hs, rev) in (('0', False), ('0', True), ('4242', False),
                          ('77', True)):
            env = dict(os.environ, PYTHONHASHSEED=hs)
            procs = []
            step = max(1, n // 8)
            for lo in range(0, n, step):
                cmd = [sys.executable, here, '_digests', '--props', prop,
                       '--seed', str(args.seed), '--runs',
                       '{}:{}'.format(lo, min(n, lo + step))]
                if rev:
                    cmd.append('--reverse')
                procs.append(subprocess.Popen(cmd, env=env,
                                              stdout=subprocess.PIPE,
                                              stderr=subprocess.DEVNULL))
            d = {}
            for p in procs:
                out, _ = p.communicate(timeout=3600)
                try:
                    d.update(json.loads(out.decode().strip().split('\n')[-1]))
                except Exception:
                    print('HARNESS-ERROR: digest helper failed for', prop)
                    return 2
            variants.append(d)
        base = variants[0]
        diff = [i for i in base
                if any(v.get(i) != base[i] for v in variants[1:])]
        total += len(base)
        stat = {}
        for v in base.values():
            stat[v[1]] = stat.get(v[1], 0) + 1
        print('determinism {}: {} runs x 4 executions (2 orders, 3 hash '
              'seeds, 4 processes each): {} divergent; outcomes {}'.format(
                  prop, len(base), len(diff), stat), flush=True)
        for i in diff[:3]:
            print('   run', i, [v.get(i) for v in variants])
        bad += len(diff)
    # harness parallelism must not matter: the same batch with 1 and with 16
    # harness workers gives the same per-run digests
    import importlib
    for prop in props:
        check = importlib.import_module('checks.' + prop.lower())
        cfg = dict(check.TIERS['quick'])
        m = min(n, 32)
        a = core.run_batch(check, cfg, args.seed, m, 1, 3600,
                           cfg.get('wall_cap', 300))
        b = core.run_batch(check, cfg, args.seed, m, 16, 3600,
                           cfg.get('wall_cap', 300))
        same = a['digs'] == b['digs'] and len(a['digs']) == m
        print('determinism {}: --jobs 1 vs --jobs 16 on {} runs: {}'.format(
            prop, m, 'equal' if same else 'DIFFERENT'), flush=True)
        if not same:
            bad += 1
    print('determinism: {} runs, {} divergent'.format(total, bad))
    return 0 if bad == 0 else 2


def sensitivity(args):
    """Breaks each property on purpose in a scratch copy of the repo and
    requires the check of that property to report a VIOLATION."""
    import shutil
    import subprocess
    from concurrent.futures import ThreadPoolExecutor
    from . import core, repo
    from .mutations import M
    props = args.props.split(',') if args.props else None
    todo = [m for m in M if props is None or m['prop'] in props]
    here = os.path.join(core.VERIF, 'check')

    def one(k_m):
        k, m = k_m
        dst = '/var/tmp/stbem-sens-{}-{}'.format(os.getpid(), k)
        shutil.rmtree(dst, ignore_errors=True)
        shutil.copytree(repo.REPO, dst, ignore=shutil.ignore_patterns(
            '.git', '__pycache__', '.benchmarks', 'data', 'data_exact'))
        try:
            for fn, old, new in m['edits']:
                p = os.path.join(dst, fn)
                src = open(p).read()
                if old not in src:
                    return m, 'NOT-APPLICABLE', ''
                open(p, 'w').write(src.replace(old, new, 1))
            env = dict(os.environ, VERIF_REPO=dst,
                       VERIF_EVIDENCE_DIR=dst + '-out/evidence',
                       VERIF_REPLAY_DIR=dst + '-out/replays')
            cmd = [sys.executable, here, m['prop'], '--tier', 'quick',
                   '--jobs', '4', '--seed', str(args.seed)]
            if m.get('runs'):
                cmd += ['--runs', str(m['runs'])]
            r = subprocess.run(cmd, env=env, stdout=subprocess.PIPE,
                               stderr=subprocess.STDOUT, timeout=3000)
            out = r.stdout.decode(errors='replace')
            hit = [l for l in out.split('\n')
                   if l.startswith('VIOLATION property=' + m['prop'])]
            if r.returncode == 1 and hit:
                cls = [l.strip() for l in out.split('\n')
                       if l.strip().startswith('class=')]
                return m, 'DETECTED', (cls[0][:100] if cls else '')
            return m, 'MISSED(exit {})'.format(r.returncode), out[-400:]
        finally:
            shutil.rmtree(dst, ignore_errors=True)
            shutil.rmtree(dst + '-out', ignore_errors=True)

    missed = 0
    with ThreadPoolExecutor(max_workers=4) as ex:
        for m, verdict, info in ex.map(one, list(enumerate(todo))):
            print('{:9s} {} {:60s} {}'.format(verdict, m['prop'], m['name'],
                                              info), flush=True)
            if verdict != 'DETECTED':
                missed += 1
    print('sensitivity: {} mutations, {} not detected'.format(
        len(todo), missed))
    return 0 if missed == 0 else 2


def _fidelity_child(use_sim, q):
    """Assembles a few matrices/vectors with the real multiprocessing.Pool
    (use_sim False) or under the simulated pool."""
    import hashlib
    import numpy as np
    from . import repo
    if use_sim:
        from . import seams, simmp, simdisk
        seams.install()
        simmp.arm(5, 1234)
        simdisk.arm()
    else:
        import multiprocessing as mp
        mp.set_start_method('fork')
    M = repo.mod('src.mesh')
    P = repo.mod('src.parametrization')
    SLm = repo.mod('src.single_layer')
    IPm = repo.mod('src.initial_potential')
    IM = repo.mod('src.initial_mesh')
    EE = repo.mod('src.error_estimator')
    out = []
    for curve in ('UnitSquare', 'Circle'):
        mesh = M.MeshParametrized(getattr(P, curve)())
        mesh.uniform_refine()
        for e in list(mesh.leaf_elements)[:3]:
            mesh.refine_space(e)
        SL = SLm.SingleLayerOperator(mesh, quad_order=6)
        elems = list(mesh.leaf_elements)
        a = SL.bilform_matrix(elems, elems, use_mp=True)
        out.append(hashlib.md5(np.ascontiguousarray(a).tobytes()).hexdigest())
        est = EE.ErrorEstimator(mesh, N_poly=3)
        r = lambda t, x_hat, gamma: np.sin(t) * gamma(x_hat)[0]
        s = est.estimate_sobolev(elems, r, use_mp=True)
        out.append(hashlib.md5(np.ascontiguousarray(s).tobytes()).hexdigest())
        if curve == 'UnitSquare':
            M0 = IPm.InitialOperator(bdr_mesh=mesh, u0=lambda xy: 1,
                                     initial_mesh=IM.UnitSquareBoundaryRefined,
                                     quad_int=3)
            v = M0.linform_vector(elems[:6], use_mp=True)
            out.append(hashlib.md5(np.ascontiguousarray(v).tobytes()).hexdigest())
    if use_sim:
        from . import simmp
        simmp.reap_all()
    q.append(out)


def fidelity(args):
    """The stub must not change what the real thing computes: the same
    assembly calls under CPython's multiprocessing.Pool and under SimPool
    give bitwise identical arrays on the unchanged tree."""
    import json
    import subprocess
    from . import core
    res = []
    for use_sim in (False, True):
        code = ('import sys; sys.path.insert(0, %r); '
                'from sim import selftest; q=[]; '
                'selftest._fidelity_child(%r, q); import json; '
                'print("RESULT" + json.dumps(q[0]))' % (core.VERIF, use_sim))
        p = subprocess.run([sys.executable, '-c', code],
                           stdout=subprocess.PIPE, stderr=subprocess.PIPE,
                           timeout=1200)
        line = [l for l in p.stdout.decode().split('\n')
                if l.startswith('RESULT')]
        if not line:
            print('HARNESS-ERROR: fidelity child failed:',
                  p.stderr.decode()[-1500:])
            return 2
        res.append(json.loads(line[0][6:]))
    same = res[0] == res[1]
    print('fidelity: real multiprocessing.Pool vs SimPool on {} arrays: '
          '{}'.format(len(res[0]), 'bitwise equal' if same else 'DIFFERENT'))
    return 0 if same else 2


def model(args):
    """The reference models against an even simpler formulation of
    themselves: the worklist closure of RefMesh / RefQuad must equal the
    naive fixpoint 'split, then while some edge-neighbours differ by >= 2
    levels split the coarser one' recomputed from scratch after every
    bisection, and the result must be a tiling."""
    import random
    from .refmesh import RefMesh, is_tiling
    from .refquad import RefQuad, is_quad_tiling
    rng = random.Random(args.seed)
    n = args.runs or 300
    bad = 0
    for k in range(n):
        n_t, n_x, glued = rng.choice([1, 2, 3]), rng.choice([1, 2, 3]), (
            rng.random() < 0.5)
        a = RefMesh(n_t, n_x, glued)
        for _ in range(rng.randint(1, 25)):
            lf = rng.choice(sorted(a.leaves))
            ax = rng.randint(0, 1)
            b = a.copy()
            # naive: split, then repair by scanning all pairs until stable
            b._split(lf, ax)
            while True:
                irr = [(x, y) for (x, y) in b.irregularities()
                       if abs(b.levels(x)[ax] - b.levels(y)[ax]) >= 2]
                if not irr:
                    break
                x, y = irr[0]
                coarse = x if b.levels(x)[ax] < b.levels(y)[ax] else y
                b._split(coarse, ax)
            a.bisect(lf, ax)
            if a.leaves != b.leaves or a.irregularities() or not is_tiling(
                    list(a.leaves), n_t, n_x)[0]:
                bad += 1
                break
    for k in range(n):
        roots = rng.choice([[(0, 0)], [(0, -1), (0, 0), (-1, 0)]])
        a = RefQuad(roots)
        for _ in range(rng.randint(1, 25)):
            lf = rng.choice(sorted(a.leaves))
            b = a.copy()
            b._split(lf)
            while True:
                irr = b.unbalanced()
                if not irr:
                    break
                b._split(irr[0][1])
            a.refine(lf)
            if a.leaves != b.leaves or a.unbalanced() or not is_quad_tiling(
                    list(a.leaves), roots)[0]:
                bad += 1
                break
    print('model self-test: {} mesh + {} quadtree histories, {} '
          'disagreements between worklist closure and naive fixpoint'.format(
              n, n, bad))
    bad_mark, n_mark, n_hits = marking_model(rng, 10 * n)
    print('model self-test: {} marking cases ({} with a prefix sum exactly on '
          'the threshold): {} disagreements between the exact-rational '
          'marking and float evaluation in five accumulation orders / three '
          'threshold associations'.format(n_mark, n_hits, bad_mark))
    return 0 if bad == 0 and bad_mark == 0 else 2


def marking_model(rng, n):
    """mark_exact against plain float evaluation.  Where the oracle claims
    decidability (it returns a marking in strict mode), every float
    evaluation order must yield that marking's prefix length; in particular
    on inputs it declares rounding-free, a prefix that lands exactly on the
    threshold counts as reaching it."""
    import numpy as np
    from .meshsim import mark_exact
    bad = n_hits = n_cases = 0
    for _ in range(n):
        m = rng.randint(2, 12)
        scale = 2.0**rng.choice([-40, -10, -1, 0, 0, 3, 20])
        style = rng.random()
        if style < 0.3:
            # built to land on the threshold: theta = 1/2, the largest
            # entry a quarter of the total
            a = rng.randint(2, 9)
            rest, left = [], 3 * a
            while left > 0:
                r = min(left, rng.randint(1, a))
                rest.append(r)
                left -= r
            vals = [scale * v for v in [a] + rest]
            rng.shuffle(vals)
            theta = 0.5
        elif style < 0.6:
            vals = [scale * rng.randint(0, 7) for _ in range(m)]
            theta = rng.choice([0.5, 0.5, 0.25, 0.75, 0.125, 0.875, 0.625])
        elif style < 0.8:
            vals = [scale * rng.randint(0, 7) for _ in range(m)]
            theta = rng.choice([0.6, 0.9, 0.3, 0.7, rng.uniform(0.1, 0.99)])
        else:
            vals = [rng.uniform(0, 1) for _ in range(m)]
            theta = rng.uniform(0.05, 0.99)
        if sum(vals) == 0:
            continue
        r = mark_exact([(v, k) for k, v in enumerate(vals)], theta)
        if r is None:
            continue  # declared undecidable: nothing is claimed
        n_cases += 1
        always, tied, k = r
        want = len(always) + k
        desc = sorted(vals, reverse=True)
        from fractions import Fraction
        acc = Fraction(0)
        thr = Fraction(theta)**2 * sum(Fraction(v) for v in vals)
        for v in desc:
            acc += Fraction(v)
            if acc >= thr:
                n_hits += acc == thr
                break
        totals = [float(np.sum(np.array(vals))), sum(vals),
                  sum(reversed(vals)), sum(desc), float(np.cumsum(vals)[-1])]
        for tot in totals:
            for thr_f in (tot * theta**2, (tot * theta) * theta,
                          theta * theta * tot):
                c, got = 0.0, None
                for i, v in enumerate(desc):
                    c += v
                    if c >= thr_f:
                        got = i + 1
                        break
                if got != want:
                    bad += 1
    return bad, n_cases, n_hits

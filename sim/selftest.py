"""setup / determinism / sensitivity self-tests of the framework."""
import os
import sys


def setup():
    """Nothing is built or fetched: verify the interpreter, numpy/scipy and
    that the repository under test imports from $VERIF_REPO."""
    from . import repo
    import numpy
    import scipy
    repo.ensure_path()
    for m in ('src.mesh', 'src.initial_mesh', 'src.single_layer',
              'src.initial_potential', 'src.error_estimator',
              'src.h_h2_error_estimator', 'src.hierarchical_error_estimator',
              'src.parametrization', 'src.norms'):
        repo.mod(m)
    os.makedirs(os.environ.get('VERIF_SCRATCH', '/var/tmp/stbem-verif'),
                exist_ok=True)
    print('setup ok: python {} numpy {} scipy {} repo {}'.format(
        sys.version.split()[0], numpy.__version__, scipy.__version__,
        repo.REPO))
    return 0


def determinism(args):
    print('not built yet')
    return 2


def sensitivity(args):
    print('not built yet')
    return 2

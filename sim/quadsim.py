"""L0 engine for the domain quadtree (src/initial_mesh.py) with the set
iteration order behind the SimSet seam."""
import numpy as np

from . import repo, simset
from .core import H, SkipRun, stream
from .meshsim import EventBudget, Finding, StepBudget
from .refquad import LOGQ, SQ, RefQuad, is_quad_tiling, qlev

DOMAINS = {
    # name: (mesh factory, curve class, root positions (by element order),
    #        side length of a root)
    'UnitSquare': ('UnitSquare', 'UnitSquare', [(0, 0)], 1.0),
    'PiSquare': ('PiSquare', 'PiSquare', [(0, 0)], np.pi),
    'LShape': ('LShape', 'LShape', [(0, -1), (0, 0), (-1, 0)], 1.0),
}
_budget = None


def budget():
    global _budget
    if _budget is None:
        _budget = EventBudget([repo.mod('src.initial_mesh')])
    return _budget


def unit_pieces(domain):
    """[(piece gamma, start parameter, unit length)] for every unit piece of
    the boundary."""
    P = repo.mod('src.parametrization')
    gamma = getattr(P, DOMAINS[domain][1])()
    unit = DOMAINS[domain][3]
    out = []
    for i, g in enumerate(gamma.pw_gamma):
        a, b = float(gamma.pw_start[i]), float(gamma.pw_start[i + 1])
        n = int(round((b - a) / unit))
        for k in range(n):
            out.append((g, a + k * unit, unit))
    return out


class QuadCase:
    def __init__(self, domain, order_seed):
        self.domain = domain
        IM = repo.mod('src.initial_mesh')
        simset.install(IM)
        simset.reseed(order_seed)
        self.IM = IM
        self.mesh = getattr(IM, DOMAINS[domain][0])()
        self.roots = DOMAINS[domain][2]
        self.side = DOMAINS[domain][3]
        self.model = RefQuad(self.roots)
        self._cell = {}
        n_roots = len(self.roots)
        if len(self.mesh.elements) != n_roots:
            raise Finding('bookkeeping', 'constructor', {'why': 'roots'})
        for e, pos in zip(self.mesh.elements, self.roots):
            self._cell[id(e)] = (e, (pos[0] * SQ, pos[1] * SQ, SQ))
        self.pieces = unit_pieces(domain)

    # --------------------------------------------------------------------
    def cell_of(self, e):
        hit = self._cell.get(id(e))
        if hit is not None and hit[0] is e:
            return hit[1]
        p = e.parent
        if p is None:
            raise Finding('bookkeeping', 'parent-chain', {'elem': repr(e)})
        px, py, ps = self.cell_of(p)
        if e.level != p.level + 1:
            raise Finding('levels', 'child', {'elem': repr(e)})
        h = ps // 2
        pv, ev = p.vertices, e.vertices
        left = ev[0].x == pv[0].x
        right = ev[2].x == pv[2].x
        bot = ev[0].y == pv[0].y
        top = ev[2].y == pv[2].y
        if left == right or bot == top:
            raise Finding('geometry', 'child-not-quadrant', {
                'child': repr(e),
                'parent': repr(p)
            })
        cell = (px + (0 if left else h), py + (0 if bot else h), h)
        self._cell[id(e)] = (e, cell)
        return cell

    def fl(self, c):
        """float coordinate of a logical coordinate (midpoint recursion)."""
        r, frac = divmod(c, SQ)
        lo, hi = r * self.side, (r + 1) * self.side
        if self.domain == 'PiSquare' and r == 0:
            lo, hi = 0, np.pi
        if frac == 0:
            return lo
        a, b = 0, SQ
        while True:
            m = (a + b) // 2
            mid = (lo + hi) / 2
            if frac == m:
                return mid
            if frac < m:
                b, hi = m, mid
            else:
                a, lo = m, mid

    def impl_cells(self):
        out = {}
        for e in list(self.mesh.leaf_elements):
            c = self.cell_of(e)
            if c in out:
                raise Finding('tiling', 'duplicate-leaf', {'leaf': repr(e)})
            out[c] = e
        return out

    # ------------------------------------------------------------ oracle --
    def check_state(self, site, before):
        cells = self.impl_cells()
        ok, why = is_quad_tiling(list(cells), self.roots)
        if not ok:
            raise Finding('tiling', site, {'why': why})
        old = RefQuad(self.roots)
        old.leaves = before
        for c in cells:
            if old.covering(*c) is None:
                raise Finding('coarsened', site, {'cell': c})
        tmp = RefQuad(self.roots)
        tmp.leaves = set(cells)
        bad = tmp.unbalanced()
        if bad:
            raise Finding('balance', site, {
                'pair': [(self.fl(c[0]), self.fl(c[1]), c[2] / SQ)
                         for c in bad[0]]
            })
        # geometry of every leaf: axis-parallel square with the float
        # coordinates its position says, vertices in the documented order
        for c, e in cells.items():
            x0, y0 = self.fl(c[0]), self.fl(c[1])
            x1, y1 = self.fl(c[0] + c[2]), self.fl(c[1] + c[2])
            v = e.vertices
            got = [(v[k].x, v[k].y) for k in range(4)]
            if got != [(x0, y0), (x1, y0), (x1, y1), (x0, y1)]:
                raise Finding('geometry', site, {
                    'leaf': repr(e),
                    'want': [(x0, y0), (x1, y1)]
                })
            if e.level != qlev(c[2]):
                raise Finding('levels', site, {'leaf': repr(e)})
        seen = {}
        for k, v in enumerate(self.mesh.vertices):
            if (v.x, v.y) in seen:
                raise Finding('vertices', site, {'xy': (v.x, v.y)})
            seen[(v.x, v.y)] = k
        # leaf collection == elements that are nobody's parent
        parents = {id(e.parent) for e in self.mesh.elements if e.parent}
        childless = {id(e) for e in self.mesh.elements if id(e) not in parents}
        if childless != {id(e) for e in cells.values()}:
            raise Finding('bookkeeping', site,
                          {'why': 'leaf_elements != childless elements'})
        return cells

    def segment(self, op):
        g, a, unit = self.pieces[op['piece'] % len(self.pieces)]
        l, k = op['l'], op['k'] % (1 << op['l'])
        c = a + unit * k / (1 << l)
        d = a + unit * (k + 1) / (1 << l)
        v0, v1 = g(c), g(d)
        return v0, v1

    def seg_cell(self, v0, v1, l):
        """Logical description of the boundary leaf that must end up owning
        the segment: (cell) of level l adjacent to the segment."""
        mid = (np.asarray(v0, dtype=float).reshape(2) +
               np.asarray(v1, dtype=float).reshape(2)) / 2
        return mid


def to_form(v, form):
    v = np.asarray(v, dtype=float).reshape(2)
    if form == 'tuple':
        return (float(v[0]), float(v[1]))
    if form == 'list':
        return [float(v[0]), float(v[1])]
    return v.reshape(2, 1)


def run_impl(site, fn, limit=None):
    import traceback
    from .core import HarnessTimeout
    try:
        if limit is not None:
            b = budget()
            with b:
                b.count = 0
                b.limit = limit
                try:
                    return fn(), b.count
                finally:
                    b.limit = None
        return fn(), 0
    except StepBudget:
        raise Finding('nontermination', site, {'event_budget': limit})
    except RecursionError:
        raise Finding('nontermination', site + '/RecursionError', {})
    except (Finding, KeyboardInterrupt, SystemExit, HarnessTimeout):
        raise
    except BaseException as ex:  # noqa
        tb = traceback.extract_tb(ex.__traceback__)
        where = [
            '{}:{}'.format(f.filename.split('/')[-1], f.lineno) for f in tb
            if '/src/' in f.filename
        ]
        raise Finding(
            'exception', site + '/' + type(ex).__name__, {
                'exception': repr(ex)[:300],
                'where': where[-3:],
                'line': tb[-1].line if tb else None
            })


def boundary_leaf(model, case, v0, v1):
    """Model leaf adjacent to the boundary segment (via its midpoint, nudged
    inside the domain)."""
    m = (np.asarray(v0, dtype=float).reshape(2) +
         np.asarray(v1, dtype=float).reshape(2)) / 2
    side = case.side
    for dx, dy in ((1, 0), (-1, 0), (0, 1), (0, -1)):
        px = int(round((m[0] / side) * SQ)) + dx * 3
        py = int(round((m[1] / side) * SQ)) + dy * 3
        lf = model.leaf_at(px, py)
        if lf is not None:
            return lf
    return None


def apply_op(cases, op, cov, log):
    """Executes op on the twin instances (different set-order streams) and
    checks the oracle on both plus order independence."""
    kind = op['op']
    cov.inc('ops')
    cov.inc('opkind.' + kind)
    results = []
    for idx, case in enumerate(cases):
        simset.reseed(H(op.get('order_seed', 0), idx))
        mesh, model = case.mesh, case.model
        before = set(model.leaves)
        site = kind
        if kind == 'refine':
            lf = model.leaf_at(*op['pt'])
            e = case.impl_cells().get(lf)
            if e is None:
                raise SkipRun('model-impl-diverged')
            run_impl(site, lambda: mesh.refine(e))
            cells = case.check_state(site, before)
            if lf in cells:
                raise Finding('not-refined', site, {'cell': lf})
            if idx == 0:
                model.refine(lf)
                if set(cells) == model.leaves:
                    cov.inc('probe.refine_result_minimal')
                if model.n_refine and len(model.leaves) - len(before) > 3:
                    cov.inc('probe.balance_cascade')
        elif kind == 'uniform':
            run_impl(site, mesh.uniform_refine)
            cells = case.check_state(site, before)
            if any(c in cells for c in before):
                raise Finding('not-refined', site, {})
        elif kind == 'target':
            v0, v1 = case.segment(op)
            if op['flip']:
                v0, v1 = v1, v0
            lf = boundary_leaf(model, case, v0, v1)
            if lf is None or qlev(lf[2]) > op['l']:
                # the mesh is already finer than the segment: the
                # postcondition is unsatisfiable, the call is not judged
                cov.inc('skipped.op_target_unsatisfiable')
                return
            if qlev(lf[2]) > 0 or len(before) > len(case.roots):
                cov.inc('probe.target_on_prerefined_mesh')
            a0, a1 = to_form(v0, op['form']), to_form(v1, op['form'])
            n_est = len(before) + 8 * (op['l'] + 1)
            limit = 50 * (op['l'] + 2) * (12 * n_est + 300)
            ret, used = run_impl(site,
                                 lambda: mesh.refine_msh_bdr(a0, a1), limit)
            cov.max('budget_used_fraction_target', used / limit)
            cells = case.check_state(site, before)
            if ret is None or id(ret) not in {id(e) for e in cells.values()}:
                raise Finding('target-return', site,
                              {'returned': repr(ret)})
            p0 = np.asarray(v0, dtype=float).reshape(2)
            p1 = np.asarray(v1, dtype=float).reshape(2)

            def close(v, p):
                return (abs(v.x - p[0]) <= 1e-9 * abs(p[0]) + 1e-12
                        and abs(v.y - p[1]) <= 1e-9 * abs(p[1]) + 1e-12)

            q0, q1 = (float(p0[0]), float(p0[1])), (float(p1[0]),
                                                    float(p1[1]))

            def has_edge(e):
                for a, b in e.edges:
                    if (close(a, q0) and close(b, q1)) or (close(b, q0)
                                                           and close(a, q1)):
                        return True
                return False

            owners = [e for e in cells.values() if has_edge(e)]
            if len(owners) != 1 or owners[0] is not ret:
                raise Finding(
                    'target-owner', site, {
                        'owners': [repr(e) for e in owners],
                        'returned': repr(ret),
                        'segment': (p0.tolist(), p1.tolist())
                    })
            for p in (a0, a1):
                r, _ = run_impl(site + '/vertex_from_coords',
                                lambda: mesh.vertex_from_coords(p))
                if r is None:
                    raise Finding('target-vertex', site, {'pt': repr(p)})
        elif kind == 'lookup':
            # a client's read before (or between) the writes: the end points
            # of a boundary segment are looked up, whether they exist yet or
            # not.  The answer is not judged (the property promises retrieval
            # only after targeting); the read is part of the history.
            v0, v1 = case.segment(op)
            for v in (v0, v1):
                r, _ = run_impl(site, lambda: mesh.vertex_from_coords(
                    to_form(v, op['form'])))
                cov.inc('probe.lookup_found' if r is not None else
                        'probe.lookup_of_a_point_that_is_no_vertex_yet')
            cells = case.check_state(site, before)
        else:
            raise ValueError(kind)
        results.append(frozenset(cells))
        if idx == 0 and kind != 'refine':
            model.leaves = set(cells)
        elif idx == 0:
            model.leaves = set(cells)
        else:
            case.model.leaves = set(cells)
    if len(results) == 2 and results[0] != results[1]:
        raise Finding('order-dependent', kind, {
            'n_a': len(results[0]),
            'n_b': len(results[1])
        })
    st = hash(results[0])
    cov.add('quad_states', st)
    cov.max('max_leaves', len(results[0]))
    log.append((kind, len(results[0]), st & 0xffffffff))


def gen_run(seed, params):
    rng = stream(seed, 'workload')
    domain = rng.choice(params.get('domains', list(DOMAINS)))
    model = RefQuad(DOMAINS[domain][2])
    n_pieces = {'UnitSquare': 4, 'PiSquare': 4, 'LShape': 8}[domain]
    if rng.random() < params.get('p_blowup', 1.0 / 1500):
        # a very large mesh (tens of thousands of leaves), then targeting:
        # state whose size matters (bounded caches, recursion, ...)
        k = 7 if domain == 'LShape' else 8
        ops = [{'op': 'uniform', 'order_seed': rng.randrange(1 << 30)}
               for _ in range(k)]
        for _ in range(2):
            ops.append({'op': 'target', 'piece': rng.randrange(n_pieces),
                        'l': rng.choice([9, 10]), 'k': rng.randrange(1 << 10),
                        'flip': rng.random() < 0.5,
                        'form': rng.choice(['tuple', 'list', 'array']),
                        'order_seed': rng.randrange(1 << 30)})
        return {'domain': domain, 'ops': ops, 'blowup': True}
    cap = params.get('leaf_cap', 300)
    r = rng.random()
    n_ops = rng.randint(1, 5) if r < 0.6 else rng.randint(6, params.get(
        'max_ops', 40))
    w = params['weights']
    kinds = list(w)
    ops = []
    focus = None
    for _ in range(n_ops):
        kind = rng.choices(kinds, [w[k] for k in kinds])[0]
        oseed = rng.randrange(1 << 30)
        if kind == 'refine':
            leaves = sorted(model.leaves)
            if focus is not None and rng.random() < 0.6:
                lf = model.leaf_at(*focus)
            else:
                lf = rng.choice(leaves)
            if qlev(lf[2]) >= 12:
                continue
            if focus is None and rng.random() < 0.5:
                focus = [lf[0] + lf[2] // 3 + 1, lf[1] + lf[2] // 3 + 1]
            trial = model.copy()
            trial.refine(lf)
            if len(trial.leaves) > cap:
                continue
            model = trial
            ops.append({
                'op': 'refine',
                'pt': [lf[0] + lf[2] // 2, lf[1] + lf[2] // 2],
                'order_seed': oseed
            })
        elif kind == 'uniform':
            if len(model.leaves) * 4 > cap:
                continue
            for lf in list(model.leaves):
                if lf in model.leaves:
                    model._split(lf)
            ops.append({'op': 'uniform', 'order_seed': oseed})
        else:
            l = rng.choice([0, 1, 1, 2, 2, 3, 3, 4, 4, 5, 6, 7, 8, 9, 10])
            ops.append({
                'op': 'target',
                'piece': rng.randrange(n_pieces),
                'l': l,
                'k': rng.randrange(1 << l),
                'flip': rng.random() < 0.5,
                'form': rng.choice(['tuple', 'list', 'array']),
                'order_seed': oseed
            })
            # the model does not predict targeting; generation continues from
            # a state in which the target chain is refined
            # (execution re-syncs the model from the implementation)
    # reads in the history (own stream: runs without them stay what they
    # were): the end points of a segment looked up before it is targeted,
    # or of any segment at any time
    lrng = stream(seed, 'workload-lookup')
    if lrng.random() < params.get('p_lookup', 0.3):
        out = []
        for op in ops:
            if op['op'] == 'target' and lrng.random() < 0.6:
                out.append({'op': 'lookup', 'piece': op['piece'], 'l': op['l'],
                            'k': op['k'],
                            'form': lrng.choice(['tuple', 'list', 'array']),
                            'order_seed': lrng.randrange(1 << 30)})
            elif lrng.random() < 0.1:
                l = lrng.choice([0, 1, 2, 3, 5, 8, 10])
                out.append({'op': 'lookup',
                            'piece': lrng.randrange(n_pieces), 'l': l,
                            'k': lrng.randrange(1 << l),
                            'form': lrng.choice(['tuple', 'list', 'array']),
                            'order_seed': lrng.randrange(1 << 30)})
            out.append(op)
        ops = out
    return {'domain': domain, 'ops': ops}


def shrink_run(run):
    from .core import ddmin_lists
    for cand in ddmin_lists(run['ops']):
        yield {'domain': run['domain'], 'ops': cand}
    for i, op in enumerate(run['ops']):
        if op['op'] == 'target' and op['l'] > 0:
            o = dict(op)
            o['l'] = op['l'] - 1
            o['k'] = op['k'] // 2
            yield {
                'domain': run['domain'],
                'ops': run['ops'][:i] + [o] + run['ops'][i + 1:]
            }
        if op['op'] == 'target' and op['form'] != 'tuple':
            o = dict(op)
            o['form'] = 'tuple'
            yield {
                'domain': run['domain'],
                'ops': run['ops'][:i] + [o] + run['ops'][i + 1:]
            }

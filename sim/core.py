"""Engine core: seeds, coverage, parallel run loop, minimisation, replay,
known findings, evidence.  Nothing in here knows about stbem."""
import hashlib
import json
import os
import pickle
import random
import signal
import subprocess
import sys
import time as _time
import traceback

VERIF = os.path.dirname(os.path.dirname(os.path.abspath(__file__)))
_perf = _time.perf_counter  # the harness' own clock; never handed to the repo


# ---------------------------------------------------------------- seeds -----
def H(*parts):
    """63-bit integer hash of the parts; the only way seeds are derived."""
    h = hashlib.sha256(repr(parts).encode()).digest()
    return int.from_bytes(h[:8], 'big') >> 1


def stream(seed, label):
    """Independent labelled PRNG stream of a run seed."""
    return random.Random(H(seed, label))


def digest(obj):
    return hashlib.sha256(
        json.dumps(obj, sort_keys=True, default=str).encode()).hexdigest()


# ----------------------------------------------------------- violations -----
class Violation(Exception):
    """A property violation observed against the real code."""
    def __init__(self, prop, cls, site, detail=None, match=None):
        super().__init__('{} {} {}'.format(prop, cls, site))
        self.prop = prop
        self.cls = cls
        self.site = site
        self.detail = detail or {}
        self.match = match or {}  # keys a known-finding entry may match on

    def sig(self):
        return (self.prop, self.cls, self.site)

    def as_dict(self):
        return {
            'property': self.prop,
            'class': self.cls,
            'site': self.site,
            'detail': self.detail,
            'match': self.match
        }


class SkipRun(Exception):
    """The run left the domain in which the property is decidable here."""
    def __init__(self, why):
        super().__init__(why)
        self.why = why


class HarnessTimeout(Exception):
    pass


# ------------------------------------------------------------- coverage -----
class Coverage:
    """Measured counts of one batch; merged across harness workers."""
    def __init__(self):
        self.n = {}  # counters
        self.s = {}  # name -> set of int hashes (distinct measures)
        self.mx = {}  # maxima
        self.samples = []

    def inc(self, name, k=1):
        self.n[name] = self.n.get(name, 0) + k

    def add(self, name, value):
        self.s.setdefault(name, set()).add(
            value if isinstance(value, int) else H(value))

    def max(self, name, v):
        if v > self.mx.get(name, float('-inf')):
            self.mx[name] = v

    def merge(self, other):
        for k, v in other.n.items():
            self.n[k] = self.n.get(k, 0) + v
        for k, v in other.s.items():
            self.s.setdefault(k, set()).update(v)
        for k, v in other.mx.items():
            self.max(k, v)
        self.samples.extend(other.samples)

    def group(self, prefix):
        """Counters called '<prefix>.<x>' as a dict {x: n}."""
        p = prefix + '.'
        return {
            k[len(p):]: v
            for k, v in sorted(self.n.items()) if k.startswith(p)
        }


# ------------------------------------------------------ known findings ------
def load_known():
    fn = os.environ.get('VERIF_KNOWN_FILE',
                        os.path.join(VERIF, 'known_findings.json'))
    if not os.path.exists(fn):
        return []
    with open(fn) as f:
        return json.load(f)


def known_match(v, known):
    """Entry of status 'known' that lists violation dict v, or None."""
    for e in known:
        if e.get('status') != 'known':
            continue
        if e.get('property') != v['property'] or e.get('class') != v['class']:
            continue
        sites = e.get('site')
        if v['site'] not in (sites if isinstance(sites, list) else [sites]):
            continue
        m = e.get('match', {})
        if all(v.get('match', {}).get(k) == val for k, val in m.items()):
            return e
    return None


# ---------------------------------------------------------- repo digest -----
def repo_digest(repo):
    h = hashlib.sha256()
    files = []
    for root in ('src', ):
        d = os.path.join(repo, root)
        for fn in sorted(os.listdir(d)):
            if fn.endswith('.py') and not fn.endswith('_test.py'):
                files.append(os.path.join(d, fn))
    for fn in ('example.py', 'problems.py'):
        files.append(os.path.join(repo, fn))
    for fn in files:
        try:
            with open(fn, 'rb') as f:
                h.update(fn.encode() + b'\0' + f.read())
        except OSError:
            pass
    return h.hexdigest()[:16]


# ------------------------------------------------------------ execution -----
class _Quiet:
    def write(self, s):
        return len(s)

    def flush(self):
        pass

    def isatty(self):
        return False


def _alarm(signum, frame):
    raise HarnessTimeout()


def execute_one(check, run, cov, wall_cap):
    """Executes one explicit run.  Returns ('ok'|'violation'|'skip'|'error'
    |'timeout', payload, event-log digest)."""
    log = []
    old = signal.signal(signal.SIGALRM, _alarm)
    signal.alarm(int(wall_cap))
    saved_stdout = sys.stdout
    sys.stdout = _Quiet()  # the repo prints progress lines
    try:
        check.execute(run, cov, log)
        return 'ok', None, digest(log)
    except Violation as v:
        return 'violation', v.as_dict(), digest(log)
    except SkipRun as s:
        cov.inc('skipped.' + s.why)
        return 'skip', s.why, digest(log)
    except HarnessTimeout:
        return 'timeout', {'last_events': log[-5:]}, digest(log)
    except BaseException as e:  # noqa
        if isinstance(e, (KeyboardInterrupt, SystemExit)):
            raise
        return 'error', traceback.format_exc(), digest(log)
    finally:
        sys.stdout = saved_stdout
        signal.alarm(0)
        signal.signal(signal.SIGALRM, old)


def run_isolated(check, cfg, seed_i, run, wall_cap):
    """One run = one process image: generation (if run is None) and execution
    happen in a forked child of a harness process that itself never imports
    the repository, so no module-level state of the code under test (pool
    objects, hand-over globals, caches) can leak from one run into the next
    and a replay in a fresh interpreter sees exactly the same execution.
    Returns (run, status, payload, digest, coverage)."""
    r, w = os.pipe()
    sys.stdout.flush()
    sys.stderr.flush()
    pid = os.fork()
    if pid == 0:
        code = 0
        try:
            os.close(r)
            cov = Coverage()
            try:
                if run is None:
                    run = check.generate(seed_i, cfg)
                status, payload, dg = execute_one(check, run, cov, wall_cap)
                if status == 'ok' and not cov.samples:
                    cov.samples.append(check.sample_of(run))
            except BaseException:  # noqa
                status, payload, dg = 'error', traceback.format_exc(), ''
            data = pickle.dumps((run, status, payload, dg, cov))
            off = 0
            while off < len(data):
                off += os.write(w, data[off:off + (1 << 16)])
        except BaseException:  # noqa
            code = 3
        finally:
            os._exit(code)
    os.close(w)
    chunks = []
    deadline = _perf() + wall_cap + 60
    import select
    killed = False
    while True:
        left = deadline - _perf()
        if left <= 0:
            os.kill(pid, signal.SIGKILL)
            killed = True
            break
        rl, _, _ = select.select([r], [], [], min(left, 5.0))
        if rl:
            c = os.read(r, 1 << 16)
            if not c:
                break
            chunks.append(c)
    os.close(r)
    _, st = os.waitpid(pid, 0)
    if killed:
        return run, 'timeout', {'why': 'run killed at hard wall cap'}, '', \
            Coverage()
    try:
        return pickle.loads(b''.join(chunks))
    except Exception:
        return run, 'error', 'run process died (wait status {})'.format(
            st), '', Coverage()


def _worker(check, cfg, base_seed, k, jobs, n_runs, t_end, out_fn, wall_cap):
    """Harness worker k: runs i = k, k+jobs, ... ; streams JSON lines."""
    cov = Coverage()
    done = 0
    viol = {}
    problems = []
    digs = []
    sys.stdout = _Quiet()  # the repo prints progress lines
    # import (never execute) the code under test once per harness worker: a
    # forked run then starts from exactly the state a fresh interpreter has
    # after importing it
    if hasattr(check, 'preload'):
        check.preload()
    with open(out_fn, 'w') as out:
        for i in range(k, n_runs, jobs):
            if _perf() > t_end:
                break
            seed_i = H(base_seed, check.PROPERTY, i)
            run, status, payload, dg, cov_i = run_isolated(
                check, cfg, seed_i, None, wall_cap)
            keep = 2 - len(cov.samples)
            cov_i.samples = cov_i.samples[:max(0, keep)]
            cov.merge(cov_i)
            done += 1
            digs.append((i, dg))
            if status == 'violation':
                sig = (payload['property'], payload['class'], payload['site'],
                       json.dumps(payload['match'], sort_keys=True))
                lst = viol.setdefault(sig, [])
                if len(lst) < 3:
                    lst.append((i, seed_i, run, payload))
                cov.inc('violations_raw')
            elif status in ('error', 'timeout'):
                problems.append((status, i, payload))
                if len(problems) > 5:
                    break
        pickle.dump(
            {
                'cov': cov,
                'done': done,
                'viol': viol,
                'problems': problems,
                'digs': digs
            }, open(out_fn + '.pkl', 'wb'))
        out.write('done\n')


def scratch_root():
    """Per-invocation scratch directory (removed when the check ends), never
    under /repo, /verif or /tmp."""
    d = os.environ.get('VERIF_SCRATCH', '/var/tmp/stbem-verif')
    sub = os.environ.get('VERIF_SCRATCH_SUB')
    if sub is None:
        sub = 'p{}'.format(os.getpid())
        os.environ['VERIF_SCRATCH_SUB'] = sub
    d = os.path.join(d, sub)
    os.makedirs(d, exist_ok=True)
    return d


def scratch_cleanup():
    import shutil
    sub = os.environ.get('VERIF_SCRATCH_SUB')
    if sub and sub == 'p{}'.format(os.getpid()):
        shutil.rmtree(os.path.join(
            os.environ.get('VERIF_SCRATCH', '/var/tmp/stbem-verif'), sub),
            ignore_errors=True)


def run_batch(check, cfg, base_seed, n_runs, jobs, budget_s, wall_cap=300):
    """Distributes n_runs over real forked harness workers.  The set of runs
    is a function of (base_seed, n_runs) only; budget_s can only cut short."""
    jobs = max(1, min(jobs, n_runs))
    t0 = _perf()
    t_end = t0 + budget_s
    tmp = os.path.join(scratch_root(), 'batch-{}-{}'.format(os.getpid(),
                                                            check.PROPERTY))
    os.makedirs(tmp, exist_ok=True)
    pids = []
    for k in range(jobs):
        out_fn = os.path.join(tmp, 'w{}'.format(k))
        sys.stdout.flush()
        sys.stderr.flush()
        pid = os.fork()
        if pid == 0:
            code = 0
            try:
                _worker(check, cfg, base_seed, k, jobs, n_runs, t_end, out_fn,
                        wall_cap)
            except BaseException:  # noqa
                traceback.print_exc()
                code = 3
            finally:
                sys.stdout.flush()
                sys.stderr.flush()
                os._exit(code)
        pids.append((pid, out_fn))

    total = Coverage()
    done = 0
    viol = {}
    problems = []
    digs = []
    hard_end = t_end + wall_cap + 30
    for pid, out_fn in pids:
        while True:
            r, st = os.waitpid(pid, os.WNOHANG)
            if r:
                break
            if _perf() > hard_end:
                os.kill(pid, signal.SIGKILL)
                os.waitpid(pid, 0)
                st = -9
                problems.append(('timeout', -1, 'harness worker killed'))
                break
            _time.sleep(0.02)
        try:
            res = pickle.load(open(out_fn + '.pkl', 'rb'))
        except Exception:
            problems.append(
                ('error', -1, 'harness worker {} died (status {})'.format(
                    pid, st)))
            continue
        total.merge(res['cov'])
        done += res['done']
        for sig, lst in res['viol'].items():
            viol.setdefault(sig, []).extend(lst)
        problems.extend(res['problems'])
        digs.extend(res['digs'])
    import shutil
    shutil.rmtree(tmp, ignore_errors=True)
    for sig in viol:
        viol[sig].sort(key=lambda x: x[0])
    digs.sort()
    return {
        'cov': total,
        'done': done,
        'viol': viol,
        'problems': problems,
        'digs': digs,
        'wall': _perf() - t0
    }


# --------------------------------------------------------- minimisation -----
def _try(check, run, want, wall_cap):
    """Executes a candidate in its own process; returns the violation payload
    iff the same class at the same site recurs."""
    _, status, payload, _, _ = run_isolated(check, {}, 0, run, wall_cap)
    if status == 'violation' and (payload['property'], payload['class'],
                                  payload['site']) == want:
        return payload
    return None


def minimise(check, run, payload, wall_cap=120, max_tries=400):
    """Delta debugging over check.shrink(run) candidates; a reduction is kept
    only if the same (property, class, site) recurs."""
    want = (payload['property'], payload['class'], payload['site'])
    tries = 0
    best, best_payload = run, payload
    progress = True
    while progress and tries < max_tries:
        progress = False
        for cand in check.shrink(best):
            tries += 1
            if tries > max_tries:
                break
            p = _try(check, cand, want, wall_cap)
            if p is not None:
                best, best_payload = cand, p
                progress = True
                break
    return best, best_payload, tries


def ddmin_lists(ops, keep_first=0):
    """Generic candidates: drop chunks of a list (halves, quarters, singles)."""
    n = len(ops)
    size = max(1, (n - keep_first) // 2)
    while size >= 1:
        i = keep_first
        while i < n:
            cand = ops[:i] + ops[i + size:]
            if len(cand) < n:
                yield cand
            i += size
        if size == 1:
            break
        size //= 2


# --------------------------------------------------------------- replay -----
def write_replay(check, seed_i, run, payload, repo):
    d = os.environ.get('VERIF_REPLAY_DIR', os.path.join(VERIF, 'replays'))
    os.makedirs(d, exist_ok=True)
    fn = os.path.join(d, '{}-{}.json'.format(check.PROPERTY, seed_i))
    with open(fn, 'w') as f:
        json.dump(
            {
                'property': check.PROPERTY,
                'engine': check.ENGINE,
                'seed': seed_i,
                'repo_digest': repo_digest(repo),
                'run': run,
                'expect': {
                    'class': payload['class'],
                    'site': payload['site'],
                    'match': payload['match'],
                    'detail': payload['detail']
                }
            },
            f,
            indent=1,
            sort_keys=True,
            default=str)
    return fn


def replay(check, fn, verbose=True):
    """Re-executes a replay file.  Returns (reproduced, payload)."""
    with open(fn) as f:
        rp = json.load(f)
    _, status, payload, _, _ = run_isolated(check, {}, 0, rp['run'], 900)
    exp = rp['expect']
    same = (status == 'violation' and payload['class'] == exp['class']
            and payload['site'] == exp['site'])
    if verbose:
        print('replay {}: status={} expected={}/{} got={}'.format(
            fn, status, exp['class'], exp['site'],
            (payload['class'] + '/' +
             payload['site']) if status == 'violation' else payload))
        if status == 'violation':
            print(json.dumps(payload['detail'], indent=1, default=str)[:4000])
    return same, status, payload


def confirm_fresh(prop, fn):
    """Re-runs the replay file in a fresh interpreter under another hash
    seed; exit status 1 (violation reproduced) is required."""
    env = dict(os.environ)
    env['PYTHONHASHSEED'] = '12345'
    p = subprocess.run(
        [sys.executable,
         os.path.join(VERIF, 'check'), prop, '--replay', fn],
        env=env,
        stdout=subprocess.PIPE,
        stderr=subprocess.STDOUT,
        timeout=1200)
    return p.returncode == 1, p.stdout.decode(errors='replace')


# ------------------------------------------------------------- evidence -----
def write_evidence(check, tier, seed, res, cfg, n_planned, extra, n_viol):
    cov = res['cov']
    wall = res['wall']
    coverage = {
        'evaluations': res['done'],
        'distinct_nontrivial': len(cov.s.get('nontrivial_runs', ())),
        'rule': check.RULE,
        'samples': cov.samples[:3],
        'runs_planned': n_planned,
        'runs': res['done'],
        'runs_per_hour': int(res['done'] / max(wall, 1e-9) * 3600),
        'seed_first': H(seed, check.PROPERTY, 0),
        'seed_last': H(seed, check.PROPERTY, max(0, n_planned - 1)),
        'ops_executed': cov.n.get('ops', 0),
        'sim_time_s': round(cov.n.get('sim_time_ms', 0) / 1000.0, 3),
        'faults_fired': cov.group('fault'),
        'probes': cov.group('probe'),
        'paths': cov.group('path'),
        'op_kinds': cov.group('opkind'),
        'skipped': cov.group('skipped'),
        'unresolved': cov.n.get('unresolved', 0),
        'distinct': {k: len(v)
                     for k, v in sorted(cov.s.items())},
        'maxima': dict(sorted(cov.mx.items())),
        'counters': {
            k: v
            for k, v in sorted(cov.n.items()) if '.' not in k
        },
        'components_real': check.COMPONENTS_REAL,
        'components_stubbed': check.COMPONENTS_STUBBED,
        'tier_config': cfg,
        'run_digest_of_batch': digest(res['digs'])[:16],
    }
    coverage.update(extra or {})
    ev = {
        'property_id': check.PROPERTY,
        'tier': tier,
        'seed': seed,
        'level': check.LEVEL,
        'coverage': coverage,
        'assumptions': check.ASSUMPTIONS,
        'wall_s': round(wall, 2),
        'violations': n_viol,
    }
    d = os.environ.get('VERIF_EVIDENCE_DIR', os.path.join(VERIF, 'evidence'))
    os.makedirs(d, exist_ok=True)
    fn = os.path.join(d, check.PROPERTY + '.json')
    with open(fn + '.tmp', 'w') as f:
        json.dump(ev, f, indent=1, sort_keys=True, default=str)
    os.replace(fn + '.tmp', fn)
    return fn


# ------------------------------------------------------------- top level ----
def run_check(check, tier, seed, jobs, budget_s, repo, n_runs=None):
    scratch_root()
    cfg = dict(check.TIERS[tier])
    n_planned = n_runs if n_runs is not None else cfg['runs']
    if budget_s is None:
        budget_s = cfg.get('budget_s', 3600)
    print('check {} tier={} seed={} runs={} jobs={} repo={} digest={}'.format(
        check.PROPERTY, tier, seed, n_planned, jobs, repo, repo_digest(repo)),
          flush=True)
    res = run_batch(check,
                    cfg,
                    seed,
                    n_planned,
                    jobs,
                    budget_s,
                    wall_cap=cfg.get('wall_cap', 300))
    known = load_known()
    exit_code = 0
    n_new = 0
    lines = []
    shown = set()
    # every listed known finding of this property that carries a witness
    # run is re-executed: it is reported as KNOWN-FINDING while it still
    # reproduces, and noted when it no longer does
    for k_idx, k in enumerate(known):
        if k.get('status') != 'known' or k.get('property') != check.PROPERTY:
            continue
        if 'witness' not in k:
            continue
        _, st, pl, _, _ = run_isolated(check, cfg, 0, k['witness'],
                                       cfg.get('wall_cap', 300))
        if st == 'violation' and known_match(pl, [k]) is not None:
            lines.append('KNOWN-FINDING: property={} {} [{} / {}; witness '
                         'run reproduces]'.format(check.PROPERTY,
                                                  k.get('what', ''),
                                                  pl['class'], pl['site']))
            shown.add(k_idx)
        else:
            lines.append('note: the witness of a listed known finding no '
                         'longer reproduces ({}): {}'.format(
                             st, k.get('what', '')[:120]))
    for sig in sorted(res['viol']):
        i, seed_i, run, payload = res['viol'][sig][0]
        k = known_match(payload, known)
        if k is not None:
            if known.index(k) in shown:
                continue
            shown.add(known.index(k))
            lines.append('KNOWN-FINDING: property={} {} [{} / {}; {} run(s) '
                         'in this batch, first seed {}]'.format(
                             payload['property'], k.get('what', ''),
                             payload['class'], payload['site'],
                             len(res['viol'][sig]), seed_i))
            continue
        n_new += 1
        print('violation in run {} (seed {}): {} / {} -- minimising'.format(
            i, seed_i, payload['class'], payload['site']),
              flush=True)
        small, small_payload, tries = minimise(check, run, payload)
        fn = write_replay(check, seed_i, small, small_payload, repo)
        ok, out = confirm_fresh(check.PROPERTY, fn)
        if not ok:
            # fall back to the unminimised run before giving up
            fn = write_replay(check, seed_i, run, payload, repo)
            ok, out = confirm_fresh(check.PROPERTY, fn)
        if ok:
            lines.append('VIOLATION property={} replay={}'.format(
                check.PROPERTY, fn))
            lines.append('  class={} site={} minimised in {} tries; '
                         'detail={}'.format(
                             small_payload['class'], small_payload['site'],
                             tries,
                             json.dumps(small_payload['detail'],
                                        default=str)[:600]))
            exit_code = max(exit_code, 1)
        else:
            lines.append(
                'HARNESS-ERROR: violation {} / {} of run seed {} did not '
                'reproduce in a fresh interpreter:\n{}'.format(
                    payload['class'], payload['site'], seed_i, out[-2000:]))
            exit_code = 2
    for status, i, payload in res['problems']:
        tag = 'HARNESS-TIMEOUT' if status == 'timeout' else 'HARNESS-ERROR'
        lines.append('{}: run {}: {}'.format(tag, i, str(payload)[-3000:]))
        exit_code = 2
    if res['done'] == 0:
        lines.append('HARNESS-ERROR: no run executed')
        exit_code = 2
    extra = check.evidence_extra(res['cov']) if hasattr(
        check, 'evidence_extra') else {}
    fn = write_evidence(check, tier, seed, res, cfg, n_planned, extra, n_new)
    print('{} runs in {:.1f}s ({} runs/h), {} ops, evidence {}'.format(
        res['done'], res['wall'],
        int(res['done'] / max(res['wall'], 1e-9) * 3600),
        res['cov'].n.get('ops', 0), fn))
    if res['done'] < n_planned:
        print('note: budget cut the batch short: {} of {} runs'.format(
            res['done'], n_planned))
    for ln in lines:
        print(ln)
    scratch_cleanup()
    if exit_code == 0:
        if any(ln.startswith('KNOWN-FINDING') for ln in lines):
            print('OK property={}: nothing beyond the listed known findings'.
                  format(check.PROPERTY))
        else:
            print('OK property={} held on everything explored'.format(
                check.PROPERTY))
    sys.stdout.flush()
    return exit_code

"""RefMesh: executable reference model of the space-time mesh.

A leaf is an integer rectangle (t0, t1, x0, x1) in *logical* coordinates: root
(j, i) of the tensor initial mesh occupies [j*S, (j+1)*S] x [i*S, (i+1)*S] with
S = 2**LOG.  Neighbours are found geometrically (shared edge piece of positive
length; x = 0 and x = Nx*S identified when glued).  Bisection is followed by a
fixpoint closure: while two edge-neighbours differ by >= 2 levels in an axis,
bisect the coarser one in that axis.  No half-edges, no recursion order."""

LOG = 48
S = 1 << LOG


def lev(h):
    return LOG - (h.bit_length() - 1)


class RefMesh:
    def __init__(self, n_t, n_x, glued):
        self.n_t = n_t
        self.n_x = n_x
        self.glued = glued
        self.T = n_t * S
        self.X = n_x * S
        self.leaves = set()
        self.by = ({}, {}, {}, {})  # t0, t1, x0, x1 -> set of leaves
        for j in range(n_t):
            for i in range(n_x):
                self._add((j * S, (j + 1) * S, i * S, (i + 1) * S))
        self.n_bisect = 0

    # -- bookkeeping
    def _add(self, lf):
        self.leaves.add(lf)
        for k in range(4):
            self.by[k].setdefault(lf[k], set()).add(lf)

    def _rm(self, lf):
        self.leaves.remove(lf)
        for k in range(4):
            self.by[k][lf[k]].discard(lf)

    def copy(self):
        m = RefMesh.__new__(RefMesh)
        m.n_t, m.n_x, m.glued, m.T, m.X = (self.n_t, self.n_x, self.glued,
                                           self.T, self.X)
        m.leaves = set(self.leaves)
        m.by = tuple({k: set(v)
                      for k, v in d.items() if v} for d in self.by)
        m.n_bisect = self.n_bisect
        return m

    def adopt(self, leaves):
        self.leaves = set()
        self.by = ({}, {}, {}, {})
        for lf in leaves:
            self._add(lf)

    @staticmethod
    def levels(lf):
        return (lev(lf[1] - lf[0]), lev(lf[3] - lf[2]))

    def key(self):
        return hash(frozenset(self.leaves))

    def canonical(self):
        return sorted(self.leaves)

    # -- geometry
    def neighbours(self, lf, edge):
        """Leaves sharing a piece of positive length of the given edge.
        edge: 0 bottom (t = t0), 1 right (x = x1), 2 top (t = t1),
        3 left (x = x0) -- the order of the implementation's edge list."""
        t0, t1, x0, x1 = lf
        if edge == 0 or edge == 2:
            if edge == 0:
                cands = self.by[1].get(t0, ())
            else:
                cands = self.by[0].get(t1, ())
            return [c for c in cands if c[2] < x1 and x0 < c[3]]
        if edge == 1:
            c = x1
            if c == self.X:
                if not self.glued:
                    return []
                c = 0
            cands = self.by[2].get(c, ())
        else:
            c = x0
            if c == 0:
                if not self.glued:
                    return []
                c = self.X
            cands = self.by[3].get(c, ())
        return [c for c in cands if c[0] < t1 and t0 < c[1]]

    def all_neighbours(self, lf):
        out = []
        for e in range(4):
            out.extend(self.neighbours(lf, e))
        return out

    def on_boundary(self, lf, edge):
        t0, t1, x0, x1 = lf
        if edge == 0:
            return t0 == 0
        if edge == 2:
            return t1 == self.T
        if edge == 1:
            return x1 == self.X
        return x0 == 0

    def leaf_at(self, pt, px):
        """Leaf containing the logical point (half-open boxes)."""
        for lf in self.leaves:
            if lf[0] <= pt < lf[1] and lf[2] <= px < lf[3]:
                return lf
        return None

    # -- refinement
    def _split(self, lf, ax):
        t0, t1, x0, x1 = lf
        self._rm(lf)
        if ax == 0:
            m = (t0 + t1) // 2
            c = ((t0, m, x0, x1), (m, t1, x0, x1))
        else:
            m = (x0 + x1) // 2
            c = ((t0, t1, x0, m), (t0, t1, m, x1))
        self._add(c[0])
        self._add(c[1])
        self.n_bisect += 1
        return c

    def bisect(self, lf, ax, limit=None):
        """Bisects leaf lf in axis ax and closes to 1-irregularity (least
        fixpoint).  Returns the number of splits performed."""
        assert lf in self.leaves
        n0 = self.n_bisect
        work = list(self._split(lf, ax))
        while work:
            c = work.pop()
            if c not in self.leaves:
                continue
            lc = self.levels(c)[ax]
            redo = False
            for n in self.all_neighbours(c):
                if n not in self.leaves:
                    continue
                ln = self.levels(n)[ax]
                if lc - ln >= 2:
                    work.extend(self._split(n, ax))
                elif ln - lc >= 2:
                    work.extend(self._split(c, ax))
                    redo = True
                    break
            if limit is not None and self.n_bisect - n0 > limit:
                raise OverflowError('closure larger than limit')
            if redo:
                continue
        return self.n_bisect - n0

    def bisect_region(self, box, ax, limit=None):
        """Bisects (once, in axis ax) every current leaf lying inside box."""
        n = 0
        for lf in [l for l in self.leaves if inside(l, box)]:
            if lf in self.leaves:
                n += self.bisect(lf, ax, limit)
        return n

    def irregularities(self):
        """Pairs of edge-neighbours differing by >= 2 levels in some axis."""
        bad = []
        for lf in self.leaves:
            l = self.levels(lf)
            for n in self.all_neighbours(lf):
                ln = self.levels(n)
                if abs(l[0] - ln[0]) >= 2 or abs(l[1] - ln[1]) >= 2:
                    bad.append((lf, n))
        return bad


def inside(lf, box):
    return (box[0] <= lf[0] and lf[1] <= box[1] and box[2] <= lf[2]
            and lf[3] <= box[3])


def is_tiling(leaves, n_t, n_x):
    """Exact check that the integer rectangles tile the n_t x n_x logical
    domain with dyadic sub-rectangles of the roots (guillotine recursion)."""
    roots = {}
    for lf in leaves:
        t0, t1, x0, x1 = lf
        if not (0 <= t0 < t1 <= n_t * S and 0 <= x0 < x1 <= n_x * S):
            return False, ('outside', lf)
        j, i = t0 // S, x0 // S
        if t1 > (j + 1) * S or x1 > (i + 1) * S:
            return False, ('crosses root', lf)
        roots.setdefault((j, i), []).append(lf)
    for j in range(n_t):
        for i in range(n_x):
            ok, why = _covers((j * S, (j + 1) * S, i * S, (i + 1) * S),
                              roots.get((j, i), []))
            if not ok:
                return False, why
    return True, None


def _covers(box, lst):
    if not lst:
        return False, ('gap', box)
    if len(lst) == 1:
        if lst[0] == box:
            return True, None
        return False, ('gap or overlap', box, lst[0])
    t0, t1, x0, x1 = box
    if t1 - t0 < 2 and x1 - x0 < 2:
        return False, ('overlap', box)
    full_t = any(l[0] == t0 and l[1] == t1 for l in lst)
    full_x = any(l[2] == x0 and l[3] == x1 for l in lst)
    if not full_t and t1 - t0 >= 2:
        m = (t0 + t1) // 2
        lo = [l for l in lst if l[1] <= m]
        hi = [l for l in lst if l[0] >= m]
        if len(lo) + len(hi) != len(lst):
            return False, ('non-dyadic', box)
        ok, why = _covers((t0, m, x0, x1), lo)
        if not ok:
            return ok, why
        return _covers((m, t1, x0, x1), hi)
    if not full_x and x1 - x0 >= 2:
        m = (x0 + x1) // 2
        lo = [l for l in lst if l[3] <= m]
        hi = [l for l in lst if l[2] >= m]
        if len(lo) + len(hi) != len(lst):
            return False, ('non-dyadic', box)
        ok, why = _covers((t0, t1, x0, m), lo)
        if not ok:
            return ok, why
        return _covers((t0, t1, m, x1), hi)
    return False, ('overlap', box)

"""SimClock: time.time() as seen by the repo.  Virtual seconds advance only
when the simulator says so (pool schedules, disk events); the harness keeps
the real perf_counter for its own budgets."""
import time as _time

_orig_time = _time.time


class SimClock:
    def __init__(self, start=1.7e9):
        self.t = start
        self.start = start
        self.reads = 0

    def now(self):
        self.reads += 1
        self.t += 1e-6  # strictly monotone between reads
        return self.t

    def advance(self, dt):
        self.t += float(dt)

    def elapsed(self):
        return self.t - self.start


CLOCK = SimClock()


def install():
    _time.time = CLOCK.now


def uninstall():
    _time.time = _orig_time


def reset():
    CLOCK.t = CLOCK.start
    CLOCK.reads = 0

"""L0 engine: the real Mesh / MeshParametrized stepped op by op in lock-step
with RefMesh.  The 'schedule' here is the operation history; there is no I/O.

All oracles raise Finding(kind, site, detail); the check modules decide which
kinds belong to their property (everything else ends the run as a skip, so an
alarm is never raised under the wrong property)."""
import itertools
import math
import sys
from fractions import Fraction

from . import repo
from .core import H, stream
from .refmesh import LOG, RefMesh, S, inside, is_tiling, lev

CURVES = ('UnitSquare', 'PiSquare', 'LShape', 'Circle', 'UnitInterval')


class Finding(Exception):
    def __init__(self, kind, site, detail=None, match=None):
        super().__init__('{} @ {}'.format(kind, site))
        self.kind = kind
        self.site = site
        self.detail = detail or {}
        self.match = match or {}


class StepBudget(Exception):
    pass


# --------------------------------------------------------------------------
# deterministic step budget: interpreter events inside the repo's mesh code
# --------------------------------------------------------------------------
class EventBudget:
    """Counts PY_START and JUMP (loop back-edge) events of the code objects of
    the given modules through sys.monitoring; raises StepBudget from inside
    the monitored code when the budget is exhausted.  Deterministic: the
    count depends on the executed bytecode path only."""
    TOOL = 3

    def __init__(self, modules):
        self.codes = []
        for m in modules:
            for obj in vars(m).values():
                self._collect(obj, m.__name__)
        self.count = 0
        self.limit = None
        self.active = False

    def _collect(self, obj, modname):
        if isinstance(obj, type) and obj.__module__ == modname:
            for v in vars(obj).values():
                f = getattr(v, '__func__', v)
                f = getattr(f, 'fget', f)
                if hasattr(f, '__code__'):
                    self.codes.append(f.__code__)
        elif hasattr(obj, '__code__') and getattr(obj, '__module__',
                                                  None) == modname:
            self.codes.append(obj.__code__)

    def _cb(self, *args):
        self.count += 1
        if self.limit is not None and self.count > self.limit:
            self.limit = None
            raise StepBudget()

    def __enter__(self):
        mon = sys.monitoring
        mon.use_tool_id(self.TOOL, 'stbem-verif-budget')
        ev = mon.events
        mon.register_callback(self.TOOL, ev.PY_START, self._cb)
        mon.register_callback(self.TOOL, ev.JUMP, self._cb)
        for c in self.codes:
            mon.set_local_events(self.TOOL, c, ev.PY_START | ev.JUMP)
        self.active = True
        return self

    def __exit__(self, *a):
        mon = sys.monitoring
        for c in self.codes:
            mon.set_local_events(self.TOOL, c, 0)
        mon.register_callback(self.TOOL, mon.events.PY_START, None)
        mon.register_callback(self.TOOL, mon.events.JUMP, None)
        mon.free_tool_id(self.TOOL)
        self.active = False
        return False


# --------------------------------------------------------------------------
# ad-hoc closed polygons (instances of the generic polygon class, no name of
# their own): same side lengths (1,1,1,1,2,2), different shapes
ADHOC = {
    'PolyA': [(0, 0), (1, 0), (1, 1), (2, 1), (2, 2), (0, 2), (0, 0)],
    'PolyB': [(0, 0), (1, 0), (2, 0), (2, 1), (2, 2), (0, 2), (0, 0)],
}


def make_curve(name):
    P = repo.mod('src.parametrization')
    if name in ADHOC:
        import numpy as np
        return P.PiecewisePolygon(
            vertices=[np.array(v) for v in ADHOC[name]])
    return getattr(P, name)()


def build_impl(config):
    M = repo.mod('src.mesh')
    if config['kind'] == 'plain':
        return M.Mesh(glue_space=config['glued'],
                      initial_space_mesh=list(config['space']),
                      initial_time_mesh=list(config['time']))
    gamma = make_curve(config['curve'])
    kw = {}
    if config.get('space') is not None:
        kw['initial_space_mesh'] = list(config['space'])
    if config.get('time') is not None:
        kw['initial_time_mesh'] = list(config['time'])
    return M.MeshParametrized(gamma, **kw)


class MeshCase:
    """One implementation mesh + its reference model."""
    def __init__(self, config, with_impl=True):
        self.config = config
        self.mesh = build_impl(config)
        mesh = self.mesh
        # initial grids as the implementation's roots expose them
        self.n_x = None
        roots = list(mesh.roots)
        ts = sorted({r.time_interval[0] for r in roots}
                    | {r.time_interval[1] for r in roots})
        xs = sorted({r.space_interval[0] for r in roots}
                    | {r.space_interval[1] for r in roots})
        self.ts, self.xs = ts, xs
        self.n_t, self.n_x = len(ts) - 1, len(xs) - 1
        self.glued = bool(mesh.glue_space)
        self._root_of = {}
        for r in roots:
            j = ts.index(r.time_interval[0])
            i = xs.index(r.space_interval[0])
            self._root_of[id(r)] = (j, i)
        self._box = {}  # id(elem) -> (elem, box)
        self._fl = ({}, {})  # axis -> logical coordinate -> float
        self.model = RefMesh(self.n_t, self.n_x, self.glued)
        # MeshParametrized may pre-refine in its constructor: the model
        # starts from whatever (valid) state the constructor produced.
        boxes = self.impl_boxes()
        ok, why = is_tiling(list(boxes), self.n_t, self.n_x)
        if not ok:
            raise Finding('tiling', 'constructor', {'why': why})
        self.model.adopt(boxes)
        self.n_ops = 0

    # ---------------------------------------------------------- geometry --
    def fl(self, ax, c):
        """Float coordinate of logical coordinate c by repeated midpoints of
        the root's ends."""
        d = self._fl[ax]
        v = d.get(c)
        if v is not None:
            return v
        grid = self.ts if ax == 0 else self.xs
        r, frac = divmod(c, S)
        if frac == 0:
            v = grid[r]
        else:
            lo, hi = grid[r], grid[r + 1]
            a, b = 0, S
            while True:
                m = (a + b) // 2
                mid = (lo + hi) / 2
                if frac == m:
                    v = mid
                    break
                if frac < m:
                    b, hi = m, mid
                else:
                    a, lo = m, mid
        d[c] = v
        return v

    def phys(self, box):
        return (self.fl(0, box[0]), self.fl(0, box[1]), self.fl(1, box[2]),
                self.fl(1, box[3]))

    def box_of(self, e):
        """Logical box of an implementation element, from its parent chain
        (axis from the levels, half from the geometry)."""
        hit = self._box.get(id(e))
        if hit is not None and hit[0] is e:
            return hit[1]
        p = e.parent
        if p is None:
            ji = self._root_of.get(id(e))
            if ji is None:
                raise Finding('bookkeeping', 'parent-chain',
                              {'why': 'parentless element is not a root'})
            if tuple(e.levels) != (0, 0):
                raise Finding('levels', 'root', {'levels': e.levels})
            box = (ji[0] * S, (ji[0] + 1) * S, ji[1] * S, (ji[1] + 1) * S)
        else:
            pb = self.box_of(p)
            dl = (e.levels[0] - p.levels[0], e.levels[1] - p.levels[1])
            if dl == (1, 0):
                ax = 0
            elif dl == (0, 1):
                ax = 1
            else:
                raise Finding('levels', 'child', {
                    'child': repr(e),
                    'levels': e.levels,
                    'parent_levels': p.levels
                })
            ci = e.time_interval if ax == 0 else e.space_interval
            pi = p.time_interval if ax == 0 else p.space_interval
            lo, hi = pb[2 * ax], pb[2 * ax + 1]
            m = (lo + hi) // 2
            if ci[0] == pi[0] and ci[1] != pi[1]:
                seg = (lo, m)
            elif ci[1] == pi[1] and ci[0] != pi[0]:
                seg = (m, hi)
            else:
                raise Finding('geometry', 'child-not-half', {
                    'child': repr(e),
                    'parent': repr(p)
                })
            box = (seg[0], seg[1], pb[2], pb[3]) if ax == 0 else (pb[0], pb[1],
                                                                  seg[0],
                                                                  seg[1])
        self._box[id(e)] = (e, box)
        return box

    def impl_leaves(self):
        return list(self.mesh.leaf_elements)

    def impl_boxes(self):
        out = {}
        for e in self.impl_leaves():
            b = self.box_of(e)
            if b in out:
                raise Finding('tiling', 'duplicate-leaf', {'leaf': repr(e)})
            out[b] = e
        return out

    # ------------------------------------------------------------ oracles --
    def check_leafset(self, site):
        """Implementation leaves == model leaves (tiling + 1-irregularity +
        minimality, all at once)."""
        boxes = self.impl_boxes()
        if set(boxes) != self.model.leaves:
            extra = sorted(set(boxes) - self.model.leaves)[:4]
            missing = sorted(self.model.leaves - set(boxes))[:4]
            ok, why = is_tiling(list(boxes), self.n_t, self.n_x)
            kind = 'minimality' if ok else 'tiling'
            raise Finding(
                kind, site, {
                    'impl_only': [self.phys(b) for b in extra],
                    'model_only': [self.phys(b) for b in missing],
                    'n_impl': len(boxes),
                    'n_model': len(self.model.leaves),
                    'tiling': why
                })
        return boxes

    def check_valid_refinement(self, site, before):
        """For opaque ops: the new leaves tile, are 1-irregular, and refine
        the old ones.  Returns the new boxes."""
        boxes = self.impl_boxes()
        ok, why = is_tiling(list(boxes), self.n_t, self.n_x)
        if not ok:
            raise Finding('tiling', site, {'why': why})
        old = sorted(before)
        for b in boxes:
            if not any(inside(b, o) for o in old if o[0] <= b[0] < o[1]):
                raise Finding('coarsened', site, {'leaf': self.phys(b)})
        tmp = RefMesh(self.n_t, self.n_x, self.glued)
        tmp.adopt(boxes)
        bad = tmp.irregularities()
        if bad:
            raise Finding('irregular', site,
                          {'pair': [self.phys(x) for x in bad[0]]})
        return boxes

    def check_floats(self, site):
        seen = ({}, {})  # logical coordinate -> float actually used
        tol_t = 1e-12 * abs(self.ts[-1] - self.ts[0])
        tol_x = 1e-12 * abs(self.xs[-1] - self.xs[0])
        for e in self.impl_leaves():
            b = self.box_of(e)
            t0, t1, x0, x1 = self.phys(b)
            # no gap and no overlap at float level: every leaf touching a
            # logical coordinate uses bit-for-bit the same float for it
            for ax, c, v in ((0, b[0], e.time_interval[0]),
                             (0, b[1], e.time_interval[1]),
                             (1, b[2], e.space_interval[0]),
                             (1, b[3], e.space_interval[1])):
                w = seen[ax].setdefault(c, v)
                if w != v:
                    raise Finding('tiling', site, {
                        'leaf': repr(e),
                        'why': 'gap/overlap: two floats for one mesh line',
                        'values': (w, v)
                    })
            got = (*e.time_interval, *e.space_interval)
            if (abs(got[0] - t0) > tol_t or abs(got[1] - t1) > tol_t
                    or abs(got[2] - x0) > tol_x or abs(got[3] - x1) > tol_x):
                raise Finding(
                    'geometry', site, {
                        'leaf': repr(e),
                        'expected': (t0, t1, x0, x1),
                        'why': 'interval is not the dyadic descendant its '
                        'levels and parent chain say'
                    })
            if tuple(e.levels) != (lev(b[1] - b[0]), lev(b[3] - b[2])):
                raise Finding('levels', site, {
                    'leaf': repr(e),
                    'levels': e.levels
                })
            t0, t1 = e.time_interval
            x0, x1 = e.space_interval
            if abs(e.h_t - (t1 - t0)) > tol_t or abs(e.h_x -
                                                      (x1 - x0)) > tol_x:
                raise Finding('geometry', site, {
                    'leaf': repr(e),
                    'why': 'h_t/h_x'
                })
            vs = e.vertices
            if (vs[0].t, vs[0].x) != (t0, x0) or (vs[1].t, vs[1].x) != (
                    t0, x1) or (vs[2].t, vs[2].x) != (t1, x1) or (
                        vs[3].t, vs[3].x) != (t1, x0):
                raise Finding('geometry', site, {
                    'leaf': repr(e),
                    'why': 'vertex order/coordinates'
                })

    def check_bookkeeping(self, site):
        mesh = self.mesh
        leaves = self.impl_leaves()
        ids = {id(e) for e in leaves}
        if len(ids) != len(leaves):
            raise Finding('bookkeeping', site, {'why': 'duplicate leaf'})
        # childless elements reachable from the roots
        childless = []
        allel = []
        stack = list(mesh.roots)
        while stack:
            e = stack.pop()
            allel.append(e)
            if e.children:
                if len(e.children) != 2:
                    raise Finding('bookkeeping', site,
                                  {'why': 'element without two children'})
                for c in e.children:
                    if c.parent is not e:
                        raise Finding('bookkeeping', site,
                                      {'why': 'child.parent mismatch'})
                stack.extend(e.children)
            else:
                childless.append(e)
        if {id(e) for e in childless} != ids:
            raise Finding(
                'bookkeeping', site, {
                    'why': 'leaf collection != childless elements',
                    'n_leaves': len(leaves),
                    'n_childless': len(childless)
                })
        gi = [e.glob_idx for e in allel]
        if len(set(gi)) != len(gi):
            raise Finding('bookkeeping', site, {'why': 'glob_idx not unique'})
        seen = {}
        for k, v in enumerate(mesh.vertices):
            if (v.t, v.x) in seen:
                raise Finding('vertices', site, {
                    'why': 'two vertices share coordinates',
                    'tx': (v.t, v.x)
                })
            seen[(v.t, v.x)] = k
        vid = {id(v) for v in mesh.vertices}
        for e in leaves:
            for v in e.vertices:
                if id(v) not in vid:
                    raise Finding('bookkeeping', site,
                                  {'why': 'leaf vertex not in vertex list'})

    def check_gmsh(self, site):
        mesh = self.mesh
        txt = mesh.gmsh()
        lines = txt.split('\n')
        try:
            i = lines.index('$Nodes')
            n = int(lines[i + 1])
            nodes = {}
            for ln in lines[i + 2:i + 2 + n]:
                a = ln.split()
                nodes[int(a[0])] = (float(a[1]), float(a[2]))
            j = lines.index('$Elements')
            m = int(lines[j + 1])
            els = [ln.split() for ln in lines[j + 2:j + 2 + m]]
        except Exception as ex:
            raise Finding('gmsh', site, {'why': 'unparsable', 'err': repr(ex)})
        leaves = self.impl_leaves()
        if n != len(mesh.vertices) or m != len(leaves) or len(nodes) != n:
            raise Finding('gmsh', site, {'why': 'counts'})
        for e, a in zip(leaves, els):
            t0, t1 = e.time_interval
            x0, x1 = e.space_interval
            want = [(t0, x0), (t0, x1), (t1, x1), (t1, x0)]
            got = [nodes.get(int(k)) for k in a[5:9]]
            if got != want:
                raise Finding('gmsh', site, {
                    'leaf': repr(e),
                    'got': got,
                    'want': want
                })

    def check_neighbours(self, site, cov=None):
        """C10: reported neighbours == leaves sharing a piece of positive
        length of the edge, from the *float* geometry of the actual leaves."""
        leaves = self.impl_leaves()
        lid = {id(e) for e in leaves}
        X0, X1 = self.xs[0], self.xs[-1]
        T0, T1 = self.ts[0], self.ts[-1]
        by_t0, by_t1, by_x0, by_x1 = {}, {}, {}, {}
        for e in leaves:
            by_t0.setdefault(e.time_interval[0], []).append(e)
            by_t1.setdefault(e.time_interval[1], []).append(e)
            by_x0.setdefault(e.space_interval[0], []).append(e)
            by_x1.setdefault(e.space_interval[1], []).append(e)
        rel = set()
        for e in leaves:
            t0, t1 = e.time_interval
            x0, x1 = e.space_interval
            for k in range(4):
                edge = e.edges[k]
                seam = False
                if k == 0:
                    geo = [
                        c for c in by_t1.get(t0, ())
                        if c.space_interval[0] < x1 and x0 < c.space_interval[1]
                    ]
                    bdr = t0 == T0
                elif k == 2:
                    geo = [
                        c for c in by_t0.get(t1, ())
                        if c.space_interval[0] < x1 and x0 < c.space_interval[1]
                    ]
                    bdr = t1 == T1
                elif k == 1:
                    c0 = x1
                    bdr = x1 == X1
                    if bdr and self.glued:
                        c0, seam = X0, True
                    geo = [
                        c for c in by_x0.get(c0, ())
                        if c.time_interval[0] < t1 and t0 < c.time_interval[1]
                    ] if (not bdr or seam) else []
                else:
                    c0 = x0
                    bdr = x0 == X0
                    if bdr and self.glued:
                        c0, seam = X1, True
                    geo = [
                        c for c in by_x1.get(c0, ())
                        if c.time_interval[0] < t1 and t0 < c.time_interval[1]
                    ] if (not bdr or seam) else []
                try:
                    rep = list(edge.neighbour_elements())
                except AssertionError as ex:
                    raise Finding('neighbour-assert', site, {
                        'leaf': repr(e),
                        'edge': k
                    })
                if any(r is None or id(r) not in lid for r in rep):
                    raise Finding(
                        'neighbour-stale', site, {
                            'leaf': repr(e),
                            'edge': k,
                            'reported': [repr(r) for r in rep]
                        })
                if len({id(r) for r in rep}) != len(rep) or {
                        id(r)
                        for r in rep
                } != {id(g)
                      for g in geo}:
                    raise Finding(
                        'neighbour-set', site, {
                            'leaf': repr(e),
                            'edge': k,
                            'reported': [repr(r) for r in rep],
                            'geometric': [repr(g) for g in geo],
                            'seam': seam
                        })
                if len(rep) > 2:
                    raise Finding('neighbour-count', site, {
                        'leaf': repr(e),
                        'edge': k,
                        'n': len(rep)
                    })
                real_bdr = bdr and not seam
                if real_bdr:
                    if rep or not edge.on_boundary or edge.glued:
                        raise Finding(
                            'neighbour-flags', site, {
                                'leaf': repr(e),
                                'edge': k,
                                'why': 'boundary edge not flagged / has '
                                'neighbours'
                            })
                else:
                    if not rep:
                        raise Finding(
                            'neighbour-empty', site, {
                                'leaf': repr(e),
                                'edge': k
                            })
                    if seam and not edge.glued:
                        raise Finding('neighbour-flags', site, {
                            'leaf': repr(e),
                            'edge': k,
                            'why': 'seam edge not glued'
                        })
                    if not seam and (edge.on_boundary or edge.glued):
                        raise Finding(
                            'neighbour-flags', site, {
                                'leaf': repr(e),
                                'edge': k,
                                'why': 'interior edge flagged boundary/glued'
                            })
                for r in rep:
                    rel.add((id(e), k, id(r)))
                    if cov is not None:
                        if r is e:
                            cov.inc('probe.self_neighbour')
                        if seam:
                            cov.inc('probe.seam_adjacent_pair')
        # symmetry: e reports r across edge k  <=>  r reports e across k^2
        for (a, k, b) in rel:
            if (b, (k + 2) % 4, a) not in rel:
                raise Finding('neighbour-asymmetric', site, {'edge': k})

    def check_pieces(self, site):
        """C18 (mesh clause): every leaf carries exactly the piece containing
        its parameter interval; >= 3 leaves around a closed curve at every
        time."""
        gamma = self.mesh.gamma_space
        for e in self.impl_leaves():
            x0, x1 = e.space_interval
            idx = [
                i for i in range(len(gamma.pw_gamma))
                if gamma.pw_start[i] <= x0 and x1 <= gamma.pw_start[i + 1]
            ]
            if len(idx) != 1:
                raise Finding('piece', site, {
                    'leaf': repr(e),
                    'why': 'leaf straddles a break point'
                })
            if e.gamma_space is not gamma.pw_gamma[idx[0]]:
                raise Finding('piece', site, {
                    'leaf': repr(e),
                    'why': 'wrong piece',
                    'piece': idx[0]
                })
        if gamma.closed:
            boxes = self.impl_boxes()
            starts = sorted({b[0] for b in boxes})
            for v in starts:
                n = sum(1 for b in boxes if b[0] <= v < b[1])
                if n < 3:
                    raise Finding(
                        'three-elements', site, {
                            't': self.fl(0, v),
                            'n_around': n
                        },
                        match={'curve': self.config.get('curve')})

    # ---------------------------------------------------------------- ops --
    def elem_at(self, pt):
        lf = self.model.leaf_at(pt[0], pt[1])
        boxes = self.impl_boxes()
        e = boxes.get(lf)
        if e is None:
            # model and implementation disagree about the leaf here; use the
            # implementation leaf containing the point
            for b, el in boxes.items():
                if b[0] <= pt[0] < b[1] and b[2] <= pt[1] < b[3]:
                    return b, el
            raise Finding('tiling', 'lookup', {'pt': pt})
        return lf, e

    def eta_for(self, op, boxes_in_order):
        return [eta_value(op, b, 0) for b in boxes_in_order], [
            eta_value(op, b, 1) for b in boxes_in_order
        ]


# --------------------------------------------------------------------------
# indicator families (a function of the leaf's logical box, so an op keeps
# its meaning when earlier ops are dropped during minimisation)
# --------------------------------------------------------------------------
EXACT_TEMPLATES = [
    # (theta, descending values): a prefix sum hits theta^2 * total exactly
    (0.9, [100.0, 62.0, 38.0]),
    (0.7, [30.0, 19.0, 19.0, 16.0, 16.0]),
    (0.6, [36.0, 32.0, 32.0]),
    (0.3, [9.0, 9.0, 9.0, 9.0, 9.0, 9.0, 9.0, 9.0, 9.0, 9.0, 9.0, 1.0]),
    (0.9, [81.0, 10.0, 9.0]),
    (0.8, [40.0, 24.0, 20.0, 16.0]),
]


def eta_fn(op, boxes):
    """f(box, axis) -> indicator value, for the leaves `boxes` of the mesh
    the op is applied to."""
    if op['cls'] != 'exact':
        return lambda b, a: eta_value(op, b, a)
    theta, tpl = EXACT_TEMPLATES[op.get('template', 0) % len(EXACT_TEMPLATES)]
    order = sorted(boxes, key=lambda b: H(op['seed'], b))
    if len(order) < len(tpl):
        return lambda b, a: eta_value(dict(op, cls='ints'), b, a)
    table = {b: v for b, v in zip(order, tpl)}
    scale = op.get('scale', 1.0)
    ax = op.get('dom_axis', 0)
    return lambda b, a: scale * table.get(b, 0.0) if a == ax else 0.0


def eta_value(op, box, axis):
    # the marking rule is scale invariant: a converged estimator hands over
    # indicators of size 1e-10, a bad start ones of size 1e6
    return op.get('scale', 1.0) * _eta_base(op, box, axis)


def _eta_base(op, box, axis):
    cls = op['cls']
    h = H(op['seed'], box, axis)
    u = (h % (1 << 30)) / float(1 << 30)
    if cls == 'random':
        return 0.001 + u
    if cls == 'zeros':
        return 0.0 if (h >> 31) % 10 < 6 else 0.001 + u
    if cls == 'ints':
        return float(h % 4)
    if cls == 'dominant':
        pt = op['pt']
        if box[0] <= pt[0] < box[1] and box[2] <= pt[1] < box[3] and (
                axis == op.get('dom_axis', 0)):
            return 1000.0
        return 1e-3 * u
    if cls == 'wide':
        return 10.0**(-12 + 14 * u)
    if cls == 'exact':
        return float(h % 4)  # only reached through legacy paths
    raise ValueError(cls)


def mark_exact(items, theta, strict=True):
    """items: list of (value, key).  Returns (always_marked_keys, tied_keys,
    m) -- the shortest prefix of the descending order whose exact sum reaches
    theta^2 * total consists of always_marked plus any m of tied_keys -- or
    None when a prefix is too close to the threshold for float accumulation
    order not to matter."""
    vals = sorted(items, key=lambda it: -it[0])
    total = sum(Fraction(v) for v, _ in vals)
    if total == 0:
        return None
    thr = Fraction(theta)**2 * total
    # When every indicator is an integer multiple of one power of two, the
    # integers add up to less than 2^53 and theta has few enough bits for
    # total * theta^2 to be exact in either association, then *no* float
    # operation of any evaluation order rounds: float arithmetic is exact
    # arithmetic and the marking is decidable even when a prefix sum hits the
    # threshold exactly ("reaches" means >=).
    exact_ok = False
    nz = [Fraction(v) for v, _ in vals if v != 0]
    if nz:
        den = max(f.denominator for f in nz)  # a power of two
        n_tot = sum(int(f * den) for f in nz)
        th = Fraction(theta)
        p_bits = th.numerator.bit_length()
        exact_ok = (n_tot.bit_length() + 2 * p_bits <= 52)
    acc = Fraction(0)
    k_star = None
    for k, (v, _) in enumerate(vals):
        acc += Fraction(v)
        if strict and not exact_ok and (
                abs(acc - thr) <= Fraction(1, 10**9) * thr):
            return None
        if acc >= thr:
            k_star = k
            break
    v_star = vals[k_star][0]
    always = [key for v, key in vals if v > v_star]
    tied = [key for v, key in vals if v == v_star]
    m = k_star + 1 - len(always)
    return always, tied, m


# --------------------------------------------------------------------------
# model side of every op
# --------------------------------------------------------------------------
class Ambiguous(Exception):
    """The op's outcome legitimately depends on float accumulation order or
    has too many tie-breaks to enumerate; not judged."""
    def __init__(self, why):
        super().__init__(why)
        self.why = why


def _lt(b):
    return lev(b[1] - b[0])


def _lx(b):
    return lev(b[3] - b[2])


def apply_marks(mm, time_boxes, space_boxes, limit=None):
    for b in sorted(time_boxes, key=lambda b: (_lt(b), b)):
        if b in mm.leaves:
            mm.bisect(b, 0, limit)
    for b in sorted(space_boxes, key=lambda b: (_lx(b), b)):
        mm.bisect_region(b, 1, limit)


def dorfler_marks(op, boxes, strict=True):
    """All admissible (time_boxes, space_boxes) marked sets for this op on
    the given leaves (one per tie-break).  strict=False (generation only):
    a best guess instead of Ambiguous."""
    iso = op['op'] == 'dorfler_iso'
    f = eta_fn(dict(op, dom_axis=0) if iso else op, boxes)
    if iso:
        items = [(f(b, 0), (b, 2)) for b in boxes]
    else:
        items = [(f(b, a), (b, a)) for b in boxes for a in (0, 1)]
    r = mark_exact(items, op['theta'], strict)
    if r is None:
        raise Ambiguous('dorfler-threshold')
    always, tied, m = r
    if math.comb(len(tied), m) > 40:
        if strict:
            raise Ambiguous('dorfler-ties')
        tied = tied[:m]
    out = []
    for combo in itertools.combinations(tied, m):
        keys = always + list(combo)
        if iso:
            tb = [b for b, _ in keys]
            out.append((tb, tb))
        else:
            out.append(([b for b, a in keys if a == 0],
                        [b for b, a in keys if a == 1]))
    return out, len(tied), m


def model_grading(case, mm, sigma, K, cap, strict=True):
    """The grading sweep on the model.  Returns (sweeps, splits).  With
    strict=False a leaf within rounding of a window boundary is classified
    by its float sizes (a best guess, used only to size budgets)."""
    n0 = mm.n_bisect
    sweeps = 0
    while True:
        mt, ms = [], []
        for lf in mm.leaves:
            t0, t1, x0, x1 = case.phys(lf)
            ht, hx = t1 - t0, x1 - x0
            r = hx**sigma
            for a, b in ((ht / K, r), (r, K * ht)):
                if strict and a != b and abs(a - b) <= 1e-12 * abs(b):
                    raise Ambiguous('grading-window-boundary')
            if ht / K >= r:
                mt.append(lf)
            elif r >= K * ht:
                ms.append(lf)
        if not mt and not ms:
            return sweeps, mm.n_bisect - n0
        sweeps += 1
        for lf in sorted(mt, key=lambda b: (_lt(b), b)):
            if lf in mm.leaves:
                mm.bisect(lf, 0, cap)
        for lf in sorted(ms, key=lambda b: (_lx(b), b)):
            if lf in mm.leaves:
                mm.bisect(lf, 1, cap)
        if len(mm.leaves) > cap or sweeps > 200:
            raise OverflowError('grading too large')


def model_apply(case, mm, op, cap, strict=True):
    """Applies op to model mm.  For Doerfler returns the list of admissible
    result leaf sets (mm is left in the first one)."""
    kind = op['op']
    if kind == 'bisect':
        lf = mm.leaf_at(*op['pt'])
        ax = op['axis']
        if ax == 2:
            t0, t1, x0, x1 = lf
            m = (t0 + t1) // 2
            mm.bisect(lf, 0, cap)
            for c in ((t0, m, x0, x1), (m, t1, x0, x1)):
                mm.bisect_region(c, 1, cap)
        else:
            mm.bisect(lf, ax, cap)
    elif kind == 'uniform':
        new = set()
        for t0, t1, x0, x1 in mm.leaves:
            tm, xm = (t0 + t1) // 2, (x0 + x1) // 2
            new.update([(t0, tm, x0, xm), (t0, tm, xm, x1), (tm, t1, x0, xm),
                        (tm, t1, xm, x1)])
        mm.adopt(new)
    elif kind == 'uniform_space':
        new = set()
        for t0, t1, x0, x1 in mm.leaves:
            xm = (x0 + x1) // 2
            new.update([(t0, t1, x0, xm), (t0, t1, xm, x1)])
        mm.adopt(new)
    elif kind in ('dorfler_iso', 'dorfler_aniso'):
        boxes = sorted(mm.leaves)
        marks, n_tied, m = dorfler_marks(op, boxes, strict)
        results = []
        first = None
        for tb, sb in marks:
            m2 = mm.copy()
            apply_marks(m2, tb, sb, cap)
            results.append((frozenset(m2.leaves), tb, sb))
            if first is None:
                first = m2
        mm.adopt(first.leaves)
        return results
    elif kind == 'grading':
        model_grading(case, mm, op['sigma'], 4, cap)
    elif kind in ('client_patch', 'decoy'):
        pass  # reading the neighbour relation / refining another mesh
        # object does not change this mesh
    else:
        raise ValueError(kind)
    return None


# --------------------------------------------------------------------------
# lock-step execution of one op
# --------------------------------------------------------------------------
_budget = None


def budget():
    global _budget
    if _budget is None:
        _budget = EventBudget([repo.mod('src.mesh')])
    return _budget


def run_impl(case, op, site, fn, limit=None):
    """Runs fn() against the implementation; any exception is a Finding of
    kind 'exception' (the check decides whether its property forbids it)."""
    try:
        if limit is not None:
            b = budget()
            with b:
                b.count = 0
                b.limit = limit
                try:
                    return fn(), b.count
                finally:
                    b.limit = None
        return fn(), 0
    except StepBudget:
        raise Finding('nontermination', site, {'event_budget': limit})
    except RecursionError:
        raise Finding('nontermination', site + '/RecursionError', {})
    except (Finding, KeyboardInterrupt, SystemExit):
        raise
    except BaseException as ex:  # noqa
        from .core import HarnessTimeout
        if isinstance(ex, HarnessTimeout):
            raise
        import traceback
        tb = traceback.extract_tb(ex.__traceback__)
        where = [
            '{}:{}'.format(f.filename.split('/')[-1], f.lineno) for f in tb
            if '/src/' in f.filename
        ]
        raise Finding(
            'exception', site + '/' + type(ex).__name__, {
                'exception': repr(ex)[:300],
                'where': where[-3:],
                'line': tb[-1].line if tb else None
            })


def apply_op(case, op, cov, mode, log):
    """mode: dict(compare=bool, post=[...], cap=int)."""
    np = repo.mod('numpy')
    mesh, model = case.mesh, case.model
    kind = op['op']
    cap = mode.get('cap', 4000)
    before = set(model.leaves)
    n_before = len(before)
    site = kind
    case.n_ops += 1
    cov.inc('ops')
    cov.inc('opkind.' + kind)
    results = None
    if kind == 'bisect':
        lf, e = case.elem_at(op['pt'])
        ax = op['axis']
        site = 'bisect/' + ('time', 'space', 'both')[ax]
        lv = RefMesh.levels(lf)
        nb = model.all_neighbours(lf)
        if ax < 2:
            if any(RefMesh.levels(n)[ax] < lv[ax] for n in nb):
                cov.inc('probe.closure_triggered')
            if any(RefMesh.levels(n)[ax] > lv[ax] for n in nb):
                cov.inc('probe.neighbour_bisected_first')
            else:
                cov.inc('probe.neighbour_bisected_after_or_equal')
        fn = (mesh.refine_time, mesh.refine_space, mesh.refine)[ax]
        run_impl(case, op, site, lambda: fn(e))
        if mode.get('model', True):
            n = model_apply(case, model, op, cap)
    elif kind == 'client_patch':
        # what a client of the mesh does with the reported neighbours:
        # collect the edge patch of an element by extending the first list
        # it got back (the lists are the client's to keep)
        lf, e = case.elem_at(op['pt'])

        def collect():
            patch = e.edges[0].neighbour_elements()
            for k in (1, 2, 3):
                patch += e.edges[k].neighbour_elements()
            return patch

        run_impl(case, op, kind, collect)
    elif kind == 'decoy':
        # a second mesh object of the same configuration lives in the same
        # process and is refined between the operations on the first: state
        # that belongs to one mesh must not be shared through the classes
        # or the module (counters, memo tables keyed by geometry, ...)
        site = 'bisect/decoy'
        if getattr(case, 'decoy', None) is None:
            case.decoy = build_impl(case.config)
        d = case.decoy
        if len(d.leaf_elements) < 3000:
            leaves = list(d.leaf_elements)
            e = leaves[op['k'] % len(leaves)]
            fn = (d.refine_time, d.refine_space, d.refine)[op['axis']]
            run_impl(case, op, site, lambda: fn(e))
            cov.inc('probe.second_mesh_object_refined_in_between')
    elif kind in ('uniform', 'uniform_space'):
        fn = mesh.uniform_refine if kind == 'uniform' else (
            mesh.uniform_refine_space)
        run_impl(case, op, site, fn)
        if mode.get('model', True):
            model_apply(case, model, op, cap)
    elif kind in ('dorfler_iso', 'dorfler_aniso'):
        elems = case.impl_leaves()
        boxes = [case.box_of(e) for e in elems]
        f = eta_fn(dict(op, dom_axis=0) if kind == 'dorfler_iso' else op,
                   boxes)
        if kind == 'dorfler_iso':
            eta = np.array([f(b, 0) for b in boxes])
        else:
            eta = np.array([[f(b, 0), f(b, 1)] for b in boxes])
        if not (eta.sum() > 0):
            from .core import SkipRun
            raise SkipRun('eta-all-zero')
        # the same numbers in another memory layout: what a caller builds
        # with np.array([eta_t, eta_x]).T, by slicing a larger table, ...
        layout = op.get('layout', 'c')
        if layout == 'f':
            eta = np.asfortranarray(eta)
        elif layout == 'strided':
            big = np.full((2 * len(boxes) + 1, ) + eta.shape[1:] + (3, ),
                          -7.0)
            big[1::2, ..., 1] = eta
            eta = big[1::2, ..., 1]
        elif layout == 'reversed-view':
            eta = np.ascontiguousarray(eta[::-1])[::-1]
        if layout != 'c':
            cov.inc('probe.indicator_layout.' + layout)
        if op.get('dtype') == 'int64' and np.all(eta == np.round(eta)) and (
                np.abs(eta).max() < 2**40):
            # integer-valued indicators handed over as an integer array
            eta = eta.astype(np.int64)
            cov.inc('probe.indicator_dtype.int64')
        ambiguous = False
        if mode.get('dorfler_oracle'):
            try:
                results = model_apply(case, model, op, cap)
                cov.inc('probe.dorfler_tiebreaks_gt1',
                        1 if len(results) > 1 else 0)
            except Ambiguous as a:
                # which prefix is "the" shortest one legitimately depends on
                # float accumulation order here (or there are too many
                # tie-breaks to enumerate): the marked set is not judged,
                # but the call must still not fail and must still produce a
                # valid refinement
                ambiguous = True
                results = None
                cov.inc('probe.dorfler_marking_not_judged.' + a.why)
        fn = (mesh.dorfler_refine_isotropic if kind == 'dorfler_iso' else
              mesh.dorfler_refine_anisotropic)
        limit = 4000 * (n_before + 10) + (400 * max(
            len(r[0]) for r in results) if results else 400 * cap)
        _, used = run_impl(case, op, site,
                           lambda: fn(eta, op['theta']), limit)
        cov.max('budget_used_fraction_dorfler', used / limit)
    elif kind == 'grading':
        est = None
        window_judged = True
        if mode.get('grading_oracle') or mode.get('model', True):
            mm = model.copy()
            try:
                sweeps, splits = model_grading(case, mm, op['sigma'], 4, cap)
            except OverflowError:
                from .core import SkipRun
                raise SkipRun('grading-too-large')
            except Ambiguous as a:
                # a leaf sits within rounding of a window boundary: which
                # way it is classified is not decidable here, so the window
                # is not judged -- but the call must still terminate without
                # error and produce a valid refinement
                cov.inc('probe.grading_window_not_judged')
                mm = model.copy()
                try:
                    sweeps, splits = model_grading(case, mm, op['sigma'], 4,
                                                   cap, strict=False)
                except OverflowError:
                    from .core import SkipRun
                    raise SkipRun('grading-too-large')
                window_judged = False
            est = (sweeps, splits, len(mm.leaves))
            cov.max('grading_sweeps', sweeps)
        if est is not None:
            limit = 50 * (150 * (est[1] + 5) + 12 * (est[0] + 2) *
                          (est[2] + 5))
        else:
            limit = 50 * 150 * cap
        _, used = run_impl(
            case, op, site,
            lambda: mesh.refine_grading(sigma=op['sigma'], K=4), limit)
        cov.max('budget_used_fraction_grading', used / limit)
        if est is not None:
            model.adopt(mm.leaves)
        grading_judged = est is not None and window_judged
    else:
        raise ValueError(kind)

    # ---- compare / adopt
    transparent = kind in ('bisect', 'uniform', 'uniform_space',
                           'client_patch', 'decoy')
    if transparent and mode.get('compare'):
        boxes = case.check_leafset(site)
    elif kind.startswith('dorfler') and mode.get('dorfler_oracle') and (
            results is not None):
        boxes = case.check_valid_refinement(site, before)
        got = frozenset(boxes)
        hit = [r for r in results if r[0] == got]
        if not hit:
            r0 = results[0]
            raise Finding(
                'dorfler-result', site, {
                    'n_before': n_before,
                    'n_impl': len(got),
                    'n_model_candidates': sorted({len(r[0])
                                                  for r in results}),
                    'impl_only':
                    [case.phys(b) for b in sorted(got - r0[0])[:4]],
                    'model_only':
                    [case.phys(b) for b in sorted(r0[0] - got)[:4]],
                    'marked_time': [case.phys(b) for b in r0[1][:6]],
                    'marked_space': [case.phys(b) for b in r0[2][:6]],
                    'theta': op['theta']
                })
        model.adopt(got)
    else:
        boxes = case.check_valid_refinement(site, before)
        if kind == 'grading' and mode.get('grading_oracle') and (
                grading_judged):
            sigma = op['sigma']
            for b in boxes:
                t0, t1, x0, x1 = case.phys(b)
                ht, hx = t1 - t0, x1 - x0
                if not (ht / 4 < hx**sigma < 4 * ht):
                    raise Finding('grading-window', site, {
                        'leaf': (t0, t1, x0, x1),
                        'sigma': sigma
                    })
        model.adopt(set(boxes))

    if len(model.leaves) > 6000:
        # undecidable marking steps can make the real mesh outgrow what the
        # generator planned for; stop rather than time out
        from .core import SkipRun
        raise SkipRun('mesh-outgrew-generator-bounds')
    for p in mode.get('post', ()):
        getattr(case, 'check_' + p)(site) if p != 'neighbours' else (
            case.check_neighbours(site, cov))
    st = state_key(model)
    cov.add('mesh_states', st)
    cov.add('mesh_transitions', (hash(frozenset(before)), kind, st))
    cov.max('max_leaves', len(model.leaves))
    log.append((kind, len(model.leaves), st & 0xffffffff))


def state_key(model):
    """Canonical hash of a mesh state: configuration + leaf set."""
    return hash((model.n_t, model.n_x, model.glued, frozenset(model.leaves)))


def reachable_states(n_t, n_x, glued, depth):
    """All states reachable from the n_t x n_x initial mesh by at most
    `depth` single bisections (time or space of any leaf), counted in the
    MODEL alone -- a yardstick for the coverage of the sampled runs, not a
    deciding step."""
    start = RefMesh(n_t, n_x, glued)
    seen = {state_key(start)}
    frontier = [start]
    for _ in range(depth):
        nxt = []
        for m in frontier:
            for lf in list(m.leaves):
                for ax in (0, 1):
                    c = m.copy()
                    c.bisect(lf, ax)
                    k = state_key(c)
                    if k not in seen:
                        seen.add(k)
                        nxt.append(c)
        frontier = nxt
    return seen


# --------------------------------------------------------------------------
# generation (model only) and shrinking
# --------------------------------------------------------------------------
def gen_config(rng, params):
    kinds = params.get('config_kinds', ('plain', 'param'))
    kind = rng.choice(kinds)
    if kind == 'plain':
        n_t = rng.choice([1, 1, 1, 2, 2, 3])
        n_x = rng.choice([1, 1, 2, 2, 3, 4])
        style = rng.choice(['unit', 'unit', 'random', 'pi', 'dyadic'])

        def grid(n, style):
            if style == 'unit':
                return [float(k) for k in range(n + 1)]
            if style == 'pi':
                return [k * math.pi / 2 for k in range(n + 1)]
            if style == 'dyadic':
                g = [0.0]
                for _ in range(n):
                    g.append(g[-1] + 2.0**rng.randint(-2, 1))
                return g
            g = [rng.uniform(-1, 1)]
            for _ in range(n):
                g.append(g[-1] + rng.uniform(0.05, 2.0))
            return g

        return {
            'kind': 'plain',
            'glued': rng.random() < 0.5,
            'space': grid(n_x, style),
            'time': grid(n_t, rng.choice([style, 'unit']))
        }
    curve = rng.choice(params.get('curves', CURVES))
    cfg = {'kind': 'param', 'curve': curve, 'space': None, 'time': None}
    r = rng.random()
    if r < params.get('p_time_grid', 0.35):
        n_t = rng.randint(1, 6)
        if rng.random() < 0.5:
            cfg['time'] = [k / n_t for k in range(n_t + 1)]
        else:
            g = [0.0]
            for _ in range(n_t):
                g.append(g[-1] + rng.choice([0.25, 0.5, 1.0, 0.3, 0.7]))
            cfg['time'] = g
    if rng.random() < params.get('p_space_grid', 0.3):
        gamma = make_curve(curve)
        pts = [float(p) for p in gamma.pw_start]
        extra = []
        for a, b in zip(pts[:-1], pts[1:]):
            if rng.random() < 0.5:
                k = rng.choice([2, 2, 3, 4])
                extra.extend(a + (b - a) * i / k for i in range(1, k))
        if curve == 'Circle' and rng.random() < 0.5:
            extra = []  # keep the one- and two-column cases frequent
            if rng.random() < 0.5:
                extra = [math.pi]
        cfg['space'] = sorted(set(pts + extra))
    return cfg


def gen_run(seed, params):
    """Explicit run: config + op list (points, classes, sub-seeds written
    out).  Generated against the model only."""
    rng = stream(seed, 'workload')
    small = 'plain' in params.get('config_kinds', ('plain', 'param')) and (
        rng.random() < params.get('p_small', 0.15))
    # long histories hugging the closing seam of a narrow glued mesh: closure
    # chains that wrap around the curve (own stream for the decision)
    seam = (not small) and 'plain' in params.get(
        'config_kinds', ('plain', 'param')) and stream(
            seed, 'scenario-seam').random() < params.get('p_seam', 0.05)
    # very deep one-sided refinement (time level 40-46 towards a corner of
    # the cylinder) on a grid whose space coordinates are far from 0: where
    # float absorption (x + tiny t), exhausted mantissas and level counters
    # show (own stream for the decision)
    deep = (not small) and (not seam) and 'plain' in params.get(
        'config_kinds', ('plain', 'param')) and stream(
            seed, 'scenario-deep').random() < params.get('p_deep', 0.004)
    for attempt in range(20):
        config = gen_config(rng, params)
        if deep:
            n_x = rng.choice([1, 2, 2, 3])
            off = rng.choice([0.0, 1.0, 1.0, 1000.0, 2.0**20])
            config = {'kind': 'plain', 'glued': rng.random() < 0.5,
                      'space': [off + k for k in range(n_x + 1)],
                      'time': [0.0, 1.0]}
        if seam:
            n_t, n_x = rng.choice([(1, 1), (1, 2), (1, 2), (2, 2), (1, 3),
                                   (2, 3)])
            config = {'kind': 'plain', 'glued': True,
                      'space': [float(k) for k in range(n_x + 1)],
                      'time': [float(k) for k in range(n_t + 1)]}
        if small:
            # the smallest initial meshes, short uniform-random bisection
            # sequences: where structural bugs surface first
            n_t, n_x = rng.choice([(1, 1), (1, 1), (1, 2), (2, 1), (2, 2)])
            config = {'kind': 'plain', 'glued': rng.random() < 0.5,
                      'space': [float(k) for k in range(n_x + 1)],
                      'time': [float(k) for k in range(n_t + 1)]}
        try:
            case = MeshCase(config)
        except Finding:
            # constructor left an invalid state: keep the config, no ops --
            # executing it reports the finding under the right property
            return {'config': config, 'ops': []}
        except AssertionError:
            continue
        break
    mm = case.model.copy()
    if deep:
        ops = []
        col = rng.randrange(case.n_x)
        x_pt = col * S + (1 if rng.random() < 0.5 else S - 1)
        t_pt = 1 if rng.random() < 0.7 else S - 1
        n_space = 0
        for k in range(rng.randint(40, 46)):
            if k < 8 and n_space < 3 and rng.random() < 0.2:
                n_space += 1
                op = {'op': 'bisect', 'pt': [t_pt, x_pt], 'axis': 1}
                model_apply(case, mm, op, 4000)
                ops.append(op)
            op = {'op': 'bisect', 'pt': [t_pt, x_pt], 'axis': 0}
            model_apply(case, mm, op, 4000)
            ops.append(op)
        return {'config': config, 'ops': ops}
    cap = params.get('leaf_cap', 300)
    w = dict(params['weights'])
    big = (not small) and rng.random() < params.get('p_big', 1.0 / 800)
    if big:
        # a few thousand leaves: size-dependent state (bounded caches,
        # recursion depth of cascades, quadratic bookkeeping)
        cap = 4000
    r = rng.random()
    if r < params.get('p_short', 0.6):
        n_ops = rng.randint(1, 6)
    elif r < 0.93:
        n_ops = rng.randint(7, 40)
    else:
        n_ops = rng.randint(41, params.get('max_ops', 200))
    bias = rng.choice([0.2, 0.5, 0.8])
    focus = rng.random() < 0.5  # keep refining near one point (cascades)
    if small:
        n_ops = rng.randint(1, 5)
        bias, focus = 0.5, False
        w = {k: (v if k == 'bisect' else 0.03 * v) for k, v in w.items()}
    fpt = None
    kinds = [k for k in w if w[k] > 0]
    ops = []
    tail = params.get('tail')  # e.g. end every run with a Doerfler/grading op
    if big:
        n_ops = rng.randint(8, 16)
    if seam:
        big = False
        n_ops = rng.randint(40, max(41, min(140, params.get('max_ops', 120))))
        w = {k: (v if k == 'bisect' else 0.0) for k, v in w.items()}
        kinds = [k for k in w if w[k] > 0]
        focus = False
        tail = None
        x_end = case.n_x * S
    for step in range(n_ops):
        last = step == n_ops - 1
        kind = rng.choices(kinds, [w[k] for k in kinds])[0]
        if last and tail:
            kind = rng.choice(tail)
        if big and step < 5 and len(mm.leaves) * 4 <= cap:
            kind = 'uniform'
        elif big and kind in ('uniform', 'uniform_space', 'grading'):
            kind = 'bisect'  # keep it affordable after the blow-up
        leaves = mm.canonical()
        if kind == 'bisect':
            if focus and fpt is not None and rng.random() < 0.7:
                lf = mm.leaf_at(*fpt)
            elif seam and rng.random() < 0.75:
                lf = rng.choice([b for b in leaves
                                 if b[2] == 0 or b[3] == x_end])
            else:
                lf = rng.choice(leaves)
            t0, t1, x0, x1 = lf
            pt = [(t0 + t1) // 2, (x0 + x1) // 2]
            if focus and fpt is None:
                fpt = [t0 + (t1 - t0) // 3 + 1, x0 + (x1 - x0) // 3 + 1]
            u = rng.random()
            ax = 2 if u < 0.1 else (0 if rng.random() < bias else 1)
            lv = RefMesh.levels(lf)
            if max(lv) >= LOG - 10:
                continue
            op = {'op': 'bisect', 'pt': pt, 'axis': ax}
        elif kind == 'client_patch':
            lf = rng.choice(leaves)
            op = {'op': kind, 'pt': [(lf[0] + lf[1]) // 2,
                                     (lf[2] + lf[3]) // 2]}
        elif kind in ('uniform', 'uniform_space'):
            if len(leaves) * (4 if kind == 'uniform' else 2) > cap:
                continue
            op = {'op': kind}
        elif kind in ('dorfler_iso', 'dorfler_aniso'):
            lf = rng.choice(leaves)
            op = {
                'op': kind,
                'cls': rng.choice(
                    ['random', 'zeros', 'ints', 'dominant', 'wide', 'ints',
                     'exact']),
                'template': rng.randrange(16),
                'seed': rng.randrange(1 << 30),
                'theta': rng.choice([
                    rng.uniform(0.001, 0.999999), rng.uniform(0.3, 0.95), 0.5,
                    0.9, 0.6, 0.999999, 0.99, 0.001, 0.05
                ]),
                'pt': [(lf[0] + lf[1]) // 2, (lf[2] + lf[3]) // 2],
                'dom_axis': rng.randint(0, 1),
                'scale': rng.choice([1.0, 1.0, 1.0, 1e-10, 1e-6, 1e6, 2.0**-40])
            }
        elif kind == 'grading':
            op = {'op': 'grading', 'sigma': rng.choice([1, 1.5, 2, 2])}
        if op.get('cls') == 'exact':
            # a prefix sum that hits theta^2 * total exactly
            op['theta'] = EXACT_TEMPLATES[op['template'] %
                                          len(EXACT_TEMPLATES)][0]
            op['scale'] = rng.choice([1.0, 1.0, 0.5, 4.0])
        trial = mm.copy()
        try:
            model_apply(case, trial, op, cap)
        except OverflowError:
            continue
        except Ambiguous:
            # the marked set is not decidable (threshold hit exactly, many
            # ties): the op is still executed -- the call must not fail --
            # and generation continues from a best guess of the result
            trial = mm.copy()
            try:
                model_apply(case, trial, op, cap, strict=False)
            except (OverflowError, Ambiguous):
                continue
        if len(trial.leaves) > cap:
            continue
        mm = trial
        ops.append(op)
    # memory layout of the indicator arrays (own stream)
    lrng = stream(seed, 'workload-layout')
    for op in ops:
        if op['op'] in ('dorfler_iso', 'dorfler_aniso') and (
                lrng.random() < params.get('p_layout', 0.35)):
            op['layout'] = lrng.choice(['f', 'f', 'strided', 'reversed-view'])
    for op in ops:
        if op['op'] in ('dorfler_iso', 'dorfler_aniso') and op.get(
                'cls') in ('ints', 'exact') and lrng.random() < 0.3:
            op['dtype'] = 'int64'
    # a second mesh object in the same process (own stream: the runs without
    # it stay what they were)
    drng = stream(seed, 'workload-decoy')
    if ops and drng.random() < params.get('p_decoy', 0.12):
        for _ in range(drng.randint(1, 6)):
            ops.insert(drng.randrange(len(ops) + 1), {
                'op': 'decoy', 'k': drng.randrange(1 << 20),
                'axis': drng.choice([0, 1, 1, 2])})
    return {'config': config, 'ops': ops}


def shrink_run(run):
    """Candidates for delta debugging: fewer ops, then simpler config."""
    from .core import ddmin_lists
    ops = run['ops']
    for cand in ddmin_lists(ops):
        yield {'config': run['config'], 'ops': cand}
    cfg = run['config']
    if cfg['kind'] == 'plain':
        if len(cfg['time']) > 2:
            c = dict(cfg)
            c['time'] = cfg['time'][:-1]
            yield {'config': c, 'ops': ops}
        if len(cfg['space']) > 2:
            c = dict(cfg)
            c['space'] = cfg['space'][:-1]
            yield {'config': c, 'ops': ops}
        unit_t = [float(k) for k in range(len(cfg['time']))]
        unit_x = [float(k) for k in range(len(cfg['space']))]
        if cfg['time'] != unit_t or cfg['space'] != unit_x:
            c = dict(cfg)
            c['time'], c['space'] = unit_t, unit_x
            yield {'config': c, 'ops': ops}
    else:
        if cfg.get('time') is not None:
            c = dict(cfg)
            c['time'] = None
            yield {'config': c, 'ops': ops}
            if len(cfg['time']) > 2:
                c = dict(cfg)
                c['time'] = cfg['time'][:-1]
                yield {'config': c, 'ops': ops}
        if cfg.get('space') is not None:
            c = dict(cfg)
            c['space'] = None
            yield {'config': c, 'ops': ops}


def nontrivial(run):
    return len(run['ops']) >= 1
